#!/venv/bin/python
"""Single entry point of the anytree verification machinery.

  run.py <Cxx> --tier quick|thorough      run the check of one property
  run.py <Cxx> --replay <file>            re-execute one saved case through the plain oracle
  run.py --setup                          make sure third-party dependencies are importable
  run.py --list                           list the property modules present

Exit codes: 0 property held on everything explored (KNOWN-FINDING lines possible),
1 violation (line ``VIOLATION property=<id> replay=<path>``), 2 harness error.
"""
import argparse
import importlib
import json
import os
import subprocess
import sys
import time

ROOT = os.path.dirname(os.path.abspath(__file__))
sys.path.insert(0, ROOT)
os.environ.setdefault("PYTHONHASHSEED", "0")
WHEELS = "/opt/veriftools/wheels"


def ensure_deps():
    deps = os.path.join(ROOT, ".deps")
    if os.path.isdir(deps) and deps not in sys.path:
        sys.path.append(deps)
    missing = []
    for mod in ("hypothesis", "six"):
        try:
            importlib.import_module(mod)
        except ImportError:
            missing.append(mod)
    if missing:
        os.makedirs(deps, exist_ok=True)
        cmd = [sys.executable, "-m", "pip", "install", "--quiet", "--no-index", "--find-links", WHEELS, "--target", deps] + missing
        subprocess.check_call(cmd)
        if deps not in sys.path:
            sys.path.append(deps)
        importlib.invalidate_caches()
        for mod in missing:
            importlib.import_module(mod)
    return missing


def main(argv=None):
    parser = argparse.ArgumentParser()
    parser.add_argument("prop", nargs="?")
    parser.add_argument("--tier", default=os.environ.get("VERIF_TIER", "quick"), choices=["quick", "thorough"])
    parser.add_argument("--replay")
    parser.add_argument("--setup", action="store_true")
    parser.add_argument("--list", action="store_true")
    args = parser.parse_args(argv)

    try:
        installed = ensure_deps()
    except Exception as exc:  # noqa: BLE001
        print("HARNESS-ERROR: cannot provide dependencies: %s" % exc)
        return 2
    if args.setup:
        # optional: atheris for the coverage-guided supplement of the thorough tiers of C07/C08
        deps = os.path.join(ROOT, ".deps")
        note = "present"
        if not os.path.isdir(os.path.join(deps, "atheris")):
            os.makedirs(deps, exist_ok=True)
            res = subprocess.run([sys.executable, "-m", "pip", "install", "--quiet", "--no-index", "--find-links", WHEELS, "--target", deps, "atheris"], stdout=subprocess.PIPE, stderr=subprocess.STDOUT)
            note = "installed" if res.returncode == 0 else "unavailable (supplement will be skipped)"
        print("setup ok (installed: %s; atheris: %s)" % (", ".join(installed) or "nothing needed", note))
        return 0
    props = sorted(f[:-3].upper() for f in os.listdir(os.path.join(ROOT, "vf", "props")) if f.startswith("c") and f.endswith(".py"))
    if args.list:
        print(" ".join(props))
        return 0
    if not args.prop or args.prop.upper() not in props:
        print("HARNESS-ERROR: unknown property %r (have: %s)" % (args.prop, " ".join(props)))
        return 2
    from vf import driver

    if args.replay:
        return driver.replay(args.prop.upper(), args.replay)
    return driver.run_check(args.prop.upper(), args.tier)


if __name__ == "__main__":
    try:
        code = main()
    except SystemExit:
        raise
    except BaseException:  # noqa: BLE001
        import traceback

        traceback.print_exc()
        print("HARNESS-ERROR: run.py crashed")
        code = 2
    sys.stdout.flush()
    sys.exit(code)
