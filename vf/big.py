"""Shapes beyond the general bounds: chains deeper than the interpreter's recursion limit and very wide nodes.

The library walks upwards (parent chains, loop checks, paths) and breadth-first iteratively, so depth is no excuse
there; only what is recursive in the library itself (pre/post order, height, rendering, export) is left out.
"""
import sys

from anytree import TreeError

from .core import Violation


def deep_size(factor=2):
    """A depth that depends on the interpreter's limit, not on a constant in the code under test."""
    return factor * sys.getrecursionlimit() + 100


def build_chain(make, depth, route):
    """[root, ..., bottom] built top-down by parent assignment ('parent'), through a constructor-style parent
    keyword where the class offers one ('ctor'), or bottom-up by children assignment ('children')."""
    if route == "children":
        nodes = [make(i) for i in range(depth)]
        for i in range(depth - 2, -1, -1):
            nodes[i].children = [nodes[i + 1]]
        return nodes
    nodes = [make(0)]
    for i in range(1, depth):
        node = make(i)
        node.parent = nodes[-1]
        nodes.append(node)
    return nodes


def expect_links(node, parent, children, what):
    if node.parent is not parent:
        raise Violation("effect", "%s: wrong parent" % what)
    kids = node.children
    if len(kids) != len(children) or any(a is not b for a, b in zip(kids, children)):
        raise Violation("effect", "%s: wrong children (%d instead of %d)" % (what, len(kids), len(children)))


def outcome_of(func):
    try:
        func()
        return None
    except TreeError as exc:
        return type(exc).__name__
    except RecursionError:
        return "RecursionError"


def build_double_ladder(make, depth, twig_every=50):
    """root with two parallel chains of `depth` nodes (every level has two nodes with different parents) and a twig
    on the left chain every `twig_every` levels.  Returns (root, left chain, right chain, twigs)."""
    root = make(0)
    left, right, twigs = [], [], []
    pl = pr = root
    for i in range(depth):
        a = make(1 + 3 * i)
        a.parent = pl
        if i % twig_every == twig_every - 1:
            t = make(2 + 3 * i)
            t.parent = pl
            twigs.append(t)
        b = make(3 + 3 * i)
        b.parent = pr
        left.append(a)
        right.append(b)
        pl, pr = a, b
    return root, left, right, twigs
