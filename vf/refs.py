"""Reference algorithms written from the property statements (independent of the library's code)."""


# ---------------------------------------------------------------------------
# traversal orders (use only .children)

def preorder(node):
    out = [node]
    for child in node.children:
        out.extend(preorder(child))
    return out


def postorder(node):
    out = []
    for child in node.children:
        out.extend(postorder(child))
    out.append(node)
    return out


def levels(node):
    """List of levels (lists of nodes), by an explicit queue."""
    out = []
    queue = [(node, 0)]
    head = 0
    while head < len(queue):
        cur, depth = queue[head]
        head += 1
        if depth == len(out):
            out.append([])
        out[depth].append(cur)
        for child in cur.children:
            queue.append((child, depth + 1))
    return out


def levelorder(node):
    return [n for level in levels(node) for n in level]


def rel_depths(node):
    """id -> depth relative to node, for the subtree of node."""
    out = {}
    stack = [(node, 0)]
    while stack:
        cur, depth = stack.pop()
        out[id(cur)] = depth
        for child in cur.children:
            stack.append((child, depth + 1))
    return out


def admitted_ids(node, stop_ids, maxlevel):
    """ids of admitted nodes: relative depth < maxlevel and no stop node on the path start..node inclusive."""
    out = set()
    stack = [(node, 0)]
    while stack:
        cur, depth = stack.pop()
        if maxlevel is not None and depth >= maxlevel:
            continue
        if id(cur) in stop_ids:
            continue
        out.add(id(cur))
        for child in cur.children:
            stack.append((child, depth + 1))
    return out


def restricted(order, admitted, hidden_ids):
    return [n for n in order if id(n) in admitted and id(n) not in hidden_ids]


def restricted_groups(node, admitted, hidden_ids):
    """One tuple per depth level that contains at least one admitted node."""
    out = []
    for level in levels(node):
        if not any(id(n) in admitted for n in level):
            continue
        out.append([n for n in level if id(n) in admitted and id(n) not in hidden_ids])
    return out


def zigzag(groups):
    return [list(reversed(g)) if i % 2 else list(g) for i, g in enumerate(groups)]


def same_seq(a, b):
    a = list(a)
    b = list(b)
    return len(a) == len(b) and all(x is y for x, y in zip(a, b))


# ---------------------------------------------------------------------------
# read - mutate - read again: every query must be correct immediately after any mutation, so the
# query checks are repeated on the *same node objects* after structural changes and renames

def mutate_tree(tree, op):
    """Apply one mutation to a list of nodes (labels = list index).  Refused moves are simply skipped."""
    from anytree import TreeError

    n = len(tree)
    kind = op[0]
    try:
        if kind == "move":
            node, target = tree[op[1] % n], tree[op[2] % n]
            cur = target
            while cur is not None and cur is not node:
                cur = cur.parent
            if cur is node:
                return  # would be a loop: refused moves are simply skipped (without asking the library to word a refusal)
            node.parent = target
        elif kind == "detach":
            tree[op[1] % n].parent = None
        elif kind == "reverse":
            node = tree[op[1] % n]
            node.children = list(reversed(node.children))
        elif kind == "rename":
            setattr(tree[op[1] % n], op[3] if len(op) > 3 else "name", op[2])
        else:
            raise ValueError(kind)
    except TreeError:
        pass


# ---------------------------------------------------------------------------
# the intended links of a built (and then mutated) tree, kept apart from what the library reports

def model_apply(parents, op):
    """parents: list index -> parent index or None.  Mirrors mutate_tree (moves that would be loops are skipped)."""
    n = len(parents)
    kind = op[0]
    if kind == "move":
        node, target = op[1] % n, op[2] % n
        cur = target
        while cur is not None and cur != node:
            cur = parents[cur]
        if cur != node:
            parents[node] = target
    elif kind == "detach":
        parents[op[1] % n] = None


def links_problem(tree, parents):
    """None if every node's .parent is the node the case intends, else a description."""
    for i, p in enumerate(parents):
        want = None if p is None else tree[p]
        if tree[i].parent is not want:
            return "node %d should have parent %s, .parent says something else" % (i, p)
        if want is not None and not any(c is tree[i] for c in want.children):
            return "node %d is missing from the children of its parent %d" % (i, p)
    return None
