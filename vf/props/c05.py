"""C05 - each iterator visits every node of the subtree exactly once in its defined order."""
import itertools
import sys

from hypothesis import strategies as st

from anytree import LevelOrderGroupIter, LevelOrderIter, PostOrderIter, PreOrderIter, ZigZagGroupIter

from .. import big, forest, nodes, refs, shapes, strategies
from ..core import Violation

PROP_ID = "C05"
LEVEL = "exploration"
RULE = (
    "cases = (ordered tree shape, start node, node class); every shape up to the stated size is enumerated with every "
    "start node (quick <= 8 nodes, thorough <= 11), plus Hypothesis-generated shapes up to 60 nodes (uniform/chain/star "
    "biased parent arrays). Besides one-go consumption every iterator object is also used in two portions (loop left early, "
    "next(), islice, zip, a sub-iterator from iter(), then resumed and exhausted), abandoned half-way and interleaved with another one. Trunks of 270-400 nodes with a crown for all five iterators; "
    "two parallel chains deeper than the interpreter's recursion limit for the three breadth-first iterators. Non-trivial = the start node's subtree has >= 4 nodes and height >= 2; enumerated cases are "
    "distinct by construction, generated ones are de-duplicated by a 64-bit hash of the case."
    ' Also: two objects of each iterator class alternately and nested; python -O/-OO child interpreters; raised recursion limit.'
    ' Rounds 11-14: deep bushy trees beyond the recursion limit (duplicate-free prefix), iterators with few frames of stack left (complete or RecursionError), node-owned children lists.'
)
ASSUMPTIONS = [
    "the traversal of a subtree is defined by .children alone: one node class (ShadowMRO) inherits unrelated class attributes named is_leaf/depth/height/size/... from a base listed before NodeMixin, and is iterated like any other",
    "reference orders are written from the definitions (recursion for pre/post order, explicit queue for level order) and use only .children",
    "depth of generated trees stays below Python's recursion limit (<= 60 nodes)",
]
ENUM_CLASSES = ["Node", "SlotLM", "EqNode", "LenNode", "ListNode", "TupleNode", "ShadowMRO", "CachedKids", "ViewMix"]


def check_deep(case, acc):
    """A trunk of case['depth'] nodes with a small crown on top: levels at absolute depth > 256 that hold several nodes."""
    make = nodes.factory(case["cls"])
    trunk = [make(0)]
    for i in range(1, case["depth"]):
        node = make(i)
        node.parent = trunk[-1]
        trunk.append(node)
    crown = forest.build_tree([[[], []], [[]], []], lambda i: make(case["depth"] + i))
    crown[0].parent = trunk[-1]
    tree = trunk + crown
    labels = forest.Labels(tree)
    for start in (0, case["depth"] - 2, case["depth"]):
        _once(dict(case, start=start), acc, tree, labels)
    acc.tag("deep_tree_cases")


def check_low_stack(case, acc):
    """The iterators called from deep inside the caller's own stack (few frames left below the interpreter's limit): each
    run ends with the complete, correct result or with RecursionError - never with a partial answer handed out as if it
    were complete."""
    from ..mut import _stack_depth

    make = nodes.factory(case["cls"])
    tree = forest.build_tree([[[], [[]]], [], [[]]], make)
    start = tree[0]
    pre, stack = [], [start]
    while stack:
        cur = stack.pop()
        pre.append(cur)
        stack.extend(reversed(cur.children))
    level, queue = [], [start]
    groups = []
    while queue:
        groups.append(tuple(queue))
        level.extend(queue)
        queue = [c for n in queue for c in n.children]
    post = []

    def walk(n):
        for c in n.children:
            walk(c)
        post.append(n)

    walk(start)
    zz = [tuple(reversed(g)) if i % 2 else g for i, g in enumerate(groups)]
    wants = {PreOrderIter: pre, PostOrderIter: post, LevelOrderIter: level, LevelOrderGroupIter: groups, ZigZagGroupIter: zz}
    old = sys.getrecursionlimit()
    complete = exhausted = 0
    for cls, want in wants.items():
        for headroom in range(2, case["max_headroom"]):
            it = cls(start)
            sys.setrecursionlimit(_stack_depth() + headroom)
            try:
                got = list(it)
                outcome = "ok"
            except RecursionError:
                outcome = "RecursionError"
            finally:
                sys.setrecursionlimit(old)
            if outcome == "ok":
                complete += 1
                if [_ids(x) for x in got] != [_ids(x) for x in want]:
                    raise Violation(cls.__name__.lower().replace("iter", ""), "%s run with %d frames of stack left returned %d items without any error; the subtree has %d" % (cls.__name__, headroom, len(got), len(want)))
            else:
                exhausted += 1
    acc.nontrivial(exhausted > 0 and complete > 0)
    acc.tag("iterations_that_ran_out_of_stack", exhausted)
    acc.tag("iterations_near_the_stack_limit_that_completed", complete)


def check_deep_bushy(case, acc):
    """The two depth-first iterators on a tree that is deeper than the interpreter's recursion limit AND bushy (every spine
    node has a leaf as first child): running into RecursionError is a legitimate way out, but whatever was handed out until
    then is a duplicate-free prefix of the defined order - and an iteration that ends normally is complete."""
    make = nodes.factory(case["cls"])
    depth = int(case["factor"] * sys.getrecursionlimit())
    spine = [make(0)]
    for i in range(1, depth):
        make(100000 + i).parent = spine[-1]
        node = make(i)
        node.parent = spine[-1]
        spine.append(node)
    pre, stack = [], [spine[0]]
    while stack:
        cur = stack.pop()
        pre.append(cur)
        stack.extend(reversed(cur.children))
    post, stack = [], [(spine[0], False)]
    while stack:
        cur, done = stack.pop()
        if done:
            post.append(cur)
        else:
            stack.append((cur, True))
            stack.extend((c, False) for c in reversed(cur.children))
    for cls, want in ((PreOrderIter, pre), (PostOrderIter, post)):
        got, ended = [], "normally"
        try:
            for node in cls(spine[0]):
                got.append(node)
        except RecursionError:
            ended = "in RecursionError"
            acc.tag("deep_bushy_iterations_ended_in_RecursionError")
        if len(got) > len(want) or any(a is not b for a, b in zip(got, want)):
            first = next((i for i, (a, b) in enumerate(zip(got, want)) if a is not b), len(want))
            raise Violation(cls.__name__.lower().replace("iter", ""), "%s on a bushy tree of %d levels (%.1f x the recursion limit) ended %s after %d items; item %d is not the %dth node of the defined order (%d nodes)" % (cls.__name__, depth, case["factor"], ended, len(got), first, first, len(want)))
        if ended == "normally" and len(got) != len(want):
            raise Violation(cls.__name__.lower().replace("iter", ""), "%s on a bushy tree of %d levels ended normally after %d of %d nodes" % (cls.__name__, depth, len(got), len(want)))
    acc.nontrivial(True)
    acc.tag("deep_bushy_cases")


def check_very_deep(case, acc):
    """The three breadth-first iterators on a tree deeper than the interpreter's recursion limit (they are loops, not
    recursions, in the library; the depth-first ones are recursive there and are left out)."""
    make = nodes.factory(case["cls"])
    depth = big.deep_size(1)
    root, left, right, twigs = big.build_double_ladder(make, depth)
    for start in (root, left[depth // 3]):
        lvls = refs.levels(start)
        want_level = [n for lv in lvls for n in lv]
        got = list(LevelOrderIter(start))
        if not refs.same_seq(got, want_level):
            raise Violation("levelorder", "tree of height %d: LevelOrderIter yields %d nodes, the subtree has %d (first difference at position %s)" % (len(lvls) - 1, len(got), len(want_level), next((i for i, (a, b) in enumerate(zip(got, want_level)) if a is not b), min(len(got), len(want_level)))))
        groups = list(LevelOrderGroupIter(start))
        if [_ids(g) for g in groups] != [_ids(tuple(lv)) for lv in lvls]:
            bad = next((i for i, (g, lv) in enumerate(zip(groups, lvls)) if _ids(g) != _ids(tuple(lv))), min(len(groups), len(lvls)))
            raise Violation("levelordergroup", "tree of height %d: LevelOrderGroupIter yields %d tuples for %d levels; first wrong tuple is #%d" % (len(lvls) - 1, len(groups), len(lvls), bad))
        zz = list(ZigZagGroupIter(start))
        if [_ids(g) for g in zz] != [_ids(tuple(g)) for g in refs.zigzag(lvls)]:
            raise Violation("zigzag", "tree of height %d: ZigZagGroupIter yields %d tuples for %d levels or a wrong direction" % (len(lvls) - 1, len(zz), len(lvls)))
    acc.nontrivial(True)
    acc.tag("trees_deeper_than_the_recursion_limit")


def check_raised_limit(case, acc):
    """A program that raised the interpreter's recursion limit (sys.setrecursionlimit) after importing the library can
    iterate trees deeper than the default limit with the depth-first iterators too."""
    make = nodes.factory(case["cls"])
    old = sys.getrecursionlimit()
    depth = int(1.6 * old)
    sys.setrecursionlimit(8 * old)
    try:
        trunk = [make(0)]
        for i in range(1, depth):
            node = make(i)
            node.parent = trunk[-1]
            trunk.append(node)
        twig = make(depth)
        twig.parent = trunk[depth // 2]
        want_pre = trunk[: depth // 2 + 1] + trunk[depth // 2 + 1:] + [twig]
        want_post = list(reversed(trunk[depth // 2 + 1:])) + [twig] + list(reversed(trunk[: depth // 2 + 1]))
        got_pre = list(PreOrderIter(trunk[0]))
        got_post = list(PostOrderIter(trunk[0]))
        got_level = list(LevelOrderIter(trunk[0]))
        groups = list(LevelOrderGroupIter(trunk[0]))
        zz = list(ZigZagGroupIter(trunk[0]))
    finally:
        sys.setrecursionlimit(old)
    if not refs.same_seq(got_pre, want_pre):
        raise Violation("preorder", "with the recursion limit raised, a trunk of %d nodes: PreOrderIter yields %d nodes or a wrong order" % (depth, len(got_pre)))
    if not refs.same_seq(got_post, want_post):
        raise Violation("postorder", "with the recursion limit raised, a trunk of %d nodes: PostOrderIter yields %d nodes or a wrong order" % (depth, len(got_post)))
    if len(got_level) != depth + 1 or len(groups) != depth or len(zz) != depth or sum(len(g) for g in groups) != depth + 1:
        raise Violation("levelorder", "with the recursion limit raised, a trunk of %d nodes: breadth-first iterators yield %d nodes / %d / %d groups" % (depth, len(got_level), len(groups), len(zz)))
    acc.nontrivial(True)
    acc.tag("cases_with_a_raised_recursion_limit")


def check_case(case, acc):
    if case.get("kind") == "raised-limit":
        return check_raised_limit(case, acc)
    if case.get("kind") == "optimised":
        from .c15 import check_optimised

        return check_optimised(case, acc)
    if case.get("kind") == "deep-bushy":
        return check_deep_bushy(case, acc)
    if case.get("kind") == "low-stack":
        return check_low_stack(case, acc)
    if case.get("kind") == "very-deep":
        return check_very_deep(case, acc)
    if case.get("kind") == "deep":
        return check_deep(case, acc)
    make = nodes.factory(case["cls"])
    tree = forest.build_tree(case["shape"], make, via=case.get("via", "parent"))
    labels = forest.Labels(tree)
    _once(case, acc, tree, labels)
    for op in case.get("mutations", []):
        # the iterators follow the current links: re-check on the same node objects after a mutation
        refs.mutate_tree(tree, op)
        _once(case, acc, tree, labels)
        acc.tag("rechecked_after_mutation")


def _ids(item):
    return tuple(id(n) for n in item) if type(item) is tuple else id(item)  # groups are plain tuples; a node may be a tuple subclass


def consume(it, mode, k):
    """Everything the iterator object `it` hands out when it is used in two portions (the first of <= k items)."""
    got = []
    if mode == "for-break":
        if k:
            for item in it:
                got.append(item)
                if len(got) >= k:
                    break
    elif mode == "next":
        for _ in range(k):
            try:
                got.append(next(it))
            except StopIteration:
                break
    elif mode == "islice":
        got.extend(itertools.islice(it, k))
    elif mode == "zip":
        got.extend(item for _, item in zip(range(k), it))
    elif mode == "iter-next":
        sub = iter(it)
        for _ in range(k):
            try:
                got.append(next(sub))
            except StopIteration:
                break
        del sub
    else:
        raise ValueError(mode)
    # second portion: the same iterator object, used again
    if k % 2:
        got.extend(it)
    else:
        for item in it:
            got.append(item)
    # and it stays exhausted
    if list(it) != [] or next(it, None) is not None:
        raise Violation("resumed-iteration", "%s hands out more items after it was exhausted" % type(it).__name__)
    return got


CONSUME_MODES = ["for-break", "next", "islice", "zip", "iter-next"]


def _once(case, acc, tree, labels):
    start = tree[case["start"]]
    before = forest.snapshot(tree, labels)

    pre = refs.preorder(start)
    post = refs.postorder(start)
    lvls = refs.levels(start)
    level = [n for lv in lvls for n in lv]

    def lab(seq):
        return labels.labels(seq)

    # iterator objects are independent: one that is abandoned half-way, or advanced alternately with another one,
    # must not influence any other iteration
    for cls in (PreOrderIter, PostOrderIter, LevelOrderIter, LevelOrderGroupIter, ZigZagGroupIter):
        stale = cls(start)
        next(stale, None)
        next(stale, None)
    wants = {PreOrderIter: pre, PostOrderIter: post, LevelOrderIter: level, LevelOrderGroupIter: [tuple(g) for g in lvls], ZigZagGroupIter: [tuple(g) for g in refs.zigzag(lvls)]}
    for cls, want in wants.items():
        # two iterator objects of the same class alive at the same time, advanced alternately ...
        inter_a, inter_b = cls(start), cls(tree[0])
        mixed = []
        for _ in range(len(want) + 1):
            item = next(inter_a, None)
            if item is not None:
                mixed.append(item)
            next(inter_b, None)
        if [_ids(x) for x in mixed] != [_ids(x) for x in want]:
            raise Violation("interleaved-iteration", "%s advanced alternately with another %s yields %d items, expected %d" % (cls.__name__, cls.__name__, len(mixed), len(want)))
        # ... and nested: a complete inner iteration for every item of the outer one
        outer = []
        for item in cls(start):
            outer.append(item)
            inner_start = item[0] if type(item) is tuple else item
            sum(1 for _ in cls(inner_start))
        if [_ids(x) for x in outer] != [_ids(x) for x in want]:
            raise Violation("interleaved-iteration", "%s with a nested %s over every item's subtree yields %d items, expected %d" % (cls.__name__, cls.__name__, len(outer), len(want)))
    # an iterator object may be used in portions (a loop left early, islice, zip, next()): together the portions are the full sequence
    zz_ref = refs.zigzag(lvls)
    for cls, want in ((PreOrderIter, pre), (PostOrderIter, post), (LevelOrderIter, level), (LevelOrderGroupIter, [tuple(g) for g in lvls]), (ZigZagGroupIter, [tuple(g) for g in zz_ref])):
        for mode, k in case.get("portions") or [[CONSUME_MODES[(len(pre) + j) % len(CONSUME_MODES)], 1 + (len(pre) * (j + 1)) // 3] for j in range(2)]:
            got = consume(cls(start), mode, k)
            if [_ids(x) for x in got] != [_ids(x) for x in want]:
                raise Violation("resumed-iteration", "%s used in two portions (%s, first %d): got %d items %r, expected %d" % (cls.__name__, mode, k, len(got), [lab(x) if type(x) is tuple else labels.label(x) for x in got], len(want)))
    got_pre = list(PreOrderIter(start))
    if not refs.same_seq(got_pre, pre):
        raise Violation("preorder", "expected %s got %s" % (lab(pre), lab(got_pre)))
    got_post = list(PostOrderIter(start))
    if not refs.same_seq(got_post, post):
        raise Violation("postorder", "expected %s got %s" % (lab(post), lab(got_post)))
    got_level = list(LevelOrderIter(start))
    if not refs.same_seq(got_level, level):
        raise Violation("levelorder", "expected %s got %s" % (lab(level), lab(got_level)))
    got_groups = list(LevelOrderGroupIter(start))
    if not all(isinstance(g, tuple) for g in got_groups):
        raise Violation("levelordergroup-type", "groups must be tuples: %r" % ([type(g).__name__ for g in got_groups],))
    if len(got_groups) != len(lvls) or not all(refs.same_seq(g, e) for g, e in zip(got_groups, lvls)):
        raise Violation("levelordergroup", "expected %s got %s" % ([lab(g) for g in lvls], [lab(g) for g in got_groups]))
    zz = refs.zigzag(lvls)
    got_zz = list(ZigZagGroupIter(start))
    if not all(isinstance(g, tuple) for g in got_zz):
        raise Violation("zigzag-type", "groups must be tuples")
    if len(got_zz) != len(zz) or not all(refs.same_seq(g, e) for g, e in zip(got_zz, zz)):
        raise Violation("zigzag", "expected %s got %s" % ([lab(g) for g in zz], [lab(g) for g in got_zz]))

    # exactly once / same identity set (also checked directly, independent of the reference orders)
    subtree_ids = sorted(id(n) for n in pre)
    for name, seq in (
        ("pre", got_pre),
        ("post", got_post),
        ("level", got_level),
        ("group", [n for g in got_groups for n in g]),
        ("zigzag", [n for g in got_zz for n in g]),
    ):
        if sorted(id(n) for n in seq) != subtree_ids:
            raise Violation("exactly-once", "%s does not enumerate the subtree exactly once" % name)
    # concatenation of the groups is the level order
    if not refs.same_seq([n for g in got_groups for n in g], got_level):
        raise Violation("group-concat", "concatenated groups differ from LevelOrderIter")
    after = forest.snapshot(tree, labels)
    if after != before:
        raise Violation("no-mutation", "tree changed by iteration: %s -> %s" % (before, after))

    size = len(pre)
    height = len(lvls) - 1
    acc.nontrivial(size >= 4 and height >= 2)
    acc.tag("height>=4", height >= 4)
    acc.tag("start_not_root", case["start"] != 0)
    acc.tag("size>=20", size >= 20)


def _enum_cases(max_nodes, index, count):
    k = 0
    for shape in shapes.trees_upto(max_nodes):
        size = shapes.shape_size(shape)
        for start in range(size):
            for cls in ENUM_CLASSES:
                if k % count == index:
                    yield {"shape": forest.to_list(shape), "start": start, "cls": cls, "via": "parent" if k % 2 else "children"}
                k += 1


@st.composite
def random_cases(draw):
    shape = draw(strategies.tree_shapes(max_nodes=60, min_nodes=4))
    size = shapes.shape_size(forest.to_tuple(shape))
    start = draw(st.one_of(st.just(0), st.integers(0, size - 1)))
    cls = draw(st.sampled_from(nodes.TREE_CLASSES + ["ShadowMRO"]))
    via = draw(st.sampled_from(["parent", "children"]))
    portions = draw(st.lists(st.tuples(st.sampled_from(CONSUME_MODES), st.integers(0, 12)).map(list), min_size=1, max_size=3))
    return {"shape": shape, "start": start, "cls": cls, "via": via, "mutations": draw(strategies.tree_mutations()), "portions": portions}


def plan(tier, seed):
    nshards = 16
    max_nodes = 8 if tier == "quick" else 11
    examples = 300 if tier == "quick" else 5000
    tasks = [{"engine": "enum", "max_nodes": max_nodes, "index": i, "count": nshards} for i in range(nshards)]
    tasks += [{"engine": "hyp", "examples": examples, "seed": seed * 1000 + i} for i in range(nshards)]
    tasks += [{"engine": "low-stack", "cls": c, "max_headroom": 40 if tier == "quick" else 80} for c in ("Node", "SlotLM", "AnyNode")]
    tasks += [{"engine": "deep-bushy", "factor": f, "cls": c} for f in ((1.3,) if tier == "quick" else (0.7, 1.3, 2.5)) for c in ("Node", "SlotLM")]
    tasks += [{"engine": "deep", "depth": d, "cls": c} for d in ((270, int(0.6 * sys.getrecursionlimit())) if tier == "quick" else (130, 270, 400, int(0.6 * sys.getrecursionlimit()), int(0.75 * sys.getrecursionlimit()))) for c in ("Node", "SlotLM")]
    tasks += [{"engine": "very-deep", "cls": c} for c in ("Node", "SlotLM")]
    tasks += [{"engine": "raised-limit", "cls": c} for c in ("Node", "SlotLM")]
    tasks += [{"engine": "optimised"}]
    return tasks


def run_task(task, acc):
    if task["engine"] == "optimised":
        for flag in ("-O", "-OO"):
            case = {"kind": "optimised", "flag": flag, "assertions_env": "1"}
            exc = acc.evaluate(check_case, case, enumerated=False)
            if exc is not None:
                acc.add_violation(case, exc)
                return
        return
    if task["engine"] in ("very-deep", "raised-limit"):
        case = {"kind": task["engine"], "cls": task["cls"]}
        exc = acc.evaluate(check_case, case, enumerated=False)
        if exc is not None:
            acc.add_violation(case, exc)
        return
    if task["engine"] == "low-stack":
        case = {"kind": "low-stack", "cls": task["cls"], "max_headroom": task["max_headroom"]}
        exc = acc.evaluate(check_case, case, enumerated=False)
        if exc is not None:
            acc.add_violation(case, exc)
        return
    if task["engine"] == "deep-bushy":
        case = {"kind": "deep-bushy", "factor": task["factor"], "cls": task["cls"]}
        exc = acc.evaluate(check_case, case, enumerated=False)
        if exc is not None:
            acc.add_violation(case, exc)
        return
    if task["engine"] == "deep":
        case = {"kind": "deep", "depth": task["depth"], "cls": task["cls"]}
        exc = acc.evaluate(check_case, case, enumerated=False)
        if exc is not None:
            acc.add_violation(case, exc)
        return
    if task["engine"] == "enum":
        acc.run_enum(check_case, _enum_cases(task["max_nodes"], task["index"], task["count"]))
    else:
        acc.run_hypothesis(check_case, random_cases(), task["examples"], task["seed"])


def exhaustive(tier):
    return False


def evidence_extra(total, tier):
    return {
        "exhaustive_subdomain": "all ordered tree shapes with <= %d nodes x every start node x {Node, SlotLM}" % (8 if tier == "quick" else 11),
    }
