"""C09 - RenderTree draws every tree faithfully; prefixes encode each node's position."""
import collections
from hypothesis import strategies as st

from anytree import AbstractStyle, AnyNode, AsciiStyle, ContRoundStyle, ContStyle, DoubleStyle, Node, RenderTree, SymlinkNode
from anytree.render import Row

from .. import forest, nodes, refs, shapes, strategies
from ..core import Violation

PROP_ID = "C09"
LEVEL = "exploration"
RULE = (
    "cases = (shape, start node, style, childiter, maxlevel, per-node text values, attribute selector kind). Enumerated: every "
    "shape <= 6 (quick) / <= 8 (thorough) nodes x every start x 7 styles (4 built-in, one passed as class, 2 custom widths) x 5 "
    "childiters x maxlevel in {None,-1,0,1..height+2}; generated: trees <= 40 nodes with random custom styles and multi-line / "
    "empty / list / tuple / int / missing / callable attribute values, Node/AnyNode/SymlinkNode reprs with generated attributes. "
    "Non-trivial = at least one rendered row at depth >= 2 whose continuation flags (its own and its ancestors') are mixed, i.e. "
    "the prefix combines bar/blank/cont/end segments of both kinds, or, for text cases, a multi-line value on a row at depth >= 1. Enumerated distinct by construction, generated hashed."
    " Also: nodes with 300-1500 children; the style object's glyph attributes changed between two renderings."
    ' Also: overlapping iterations of one RenderTree object; range/deque values.'
    ' Also: maxlevels that are not whole numbers (literal reading).'
    ' Rounds 11-14: line boundaries other than \\\\n (one reading), dotted attribute names, name orders, wide glyphs.'
)
ASSUMPTIONS = [
    "values have no trailing newline; the statement does not say which characters end a line, so for values containing other line boundaries (\\r, \\x0b, \\x0c, \\x1c-\\x1e, \\x85, \\u2028, \\u2029) the whole text must follow ONE reading - '\\n' only, or every str.splitlines boundary - for all values of the rendering",
    "custom styles have three strings of equal width with cont != end and vertical != blank, so that the drawing is decodable",
]

STYLES = {
    "ascii": lambda: AsciiStyle(),
    "cont": lambda: ContStyle(),
    "round": lambda: ContRoundStyle(),
    "double": lambda: DoubleStyle(),
    "double-class": lambda: DoubleStyle,
}


class ReprNM(nodes.PlainNM):
    def __repr__(self):
        return getattr(self, "text", "ReprNM(%s)" % (self.name,))

    def __str__(self):  # str(RenderTree) prints the repr of the nodes, not their str
        return "str-of-%s\nsecond line" % (self.name,)


def style_of(spec):
    if isinstance(spec, str):
        obj = STYLES[spec]()
        inst = obj() if isinstance(obj, type) else obj
        return obj, (inst.vertical, inst.cont, inst.end)
    vertical, cont, end = spec
    return AbstractStyle(vertical, cont, end), (vertical, cont, end)


def childiter_of(name):
    if name == "list":
        return list
    if name == "reversed":
        return reversed
    if name == "sort":
        return lambda items: sorted(items, key=lambda n: (-(n.idx % 3), n.idx))
    if name == "filter":
        return lambda items: [n for n in items if n.idx % 3 != 1]
    if name == "genfilter":
        return lambda items: (n for n in items if n.idx % 4 != 2)
    raise ValueError(name)


def ref_rows(start, childiter, maxlevel, glyphs):
    """Rows from the statement: (pre, fill, node, depth, flags) with flags[j] = path node at depth j+1 has a following sibling."""
    vertical, cont, end = glyphs
    blank = " " * len(end)
    limit = None if maxlevel is None else max(maxlevel, 1)
    rows = []

    def walk(node, flags):
        depth = len(flags)
        if depth == 0:
            rows.append(("", "", node, 0, flags))
        else:
            segs = [vertical if f else blank for f in flags]
            pre = "".join(segs[:-1]) + (cont if flags[-1] else end)
            rows.append((pre, "".join(segs), node, depth, flags))
        if limit is not None and depth + 1 >= limit:
            return
        kids = list(node.children)
        if not kids:
            return
        kids = list(childiter(tuple(kids)))
        for i, kid in enumerate(kids):
            walk(kid, flags + (i + 1 < len(kids),))

    walk(start, ())
    return rows


def decode(pres, glyphs):
    """Rebuild the nested shape from the pre strings alone."""
    vertical, cont, end = glyphs
    width = len(end)
    blank = " " * width
    items = []
    for pre in pres:
        if pre == "":
            items.append((0, None))
            continue
        if len(pre) % width:
            raise Violation("decode", "prefix length %d is not a multiple of the style width %d" % (len(pre), width))
        segs = [pre[i:i + width] for i in range(0, len(pre), width)]
        if segs[-1] not in (cont, end) or any(s not in (vertical, blank) for s in segs[:-1]):
            raise Violation("decode", "prefix %r is not made of the style's segments" % (pre,))
        items.append((len(segs), segs[-1] == end))
    if not items or items[0][0] != 0:
        raise Violation("decode", "first row must be the root")
    # build tree from (depth, is_last) in pre-order
    root = []
    stack = [(0, root)]
    closed = {}
    for depth, is_last in items[1:]:
        while stack and stack[-1][0] >= depth:
            stack.pop()
        if not stack or stack[-1][0] != depth - 1:
            raise Violation("decode", "row depth jumps")
        if closed.get(id(stack[-1][1])):
            raise Violation("decode", "child after the 'end' branch of the same parent")
        node = []
        stack[-1][1].append(node)
        if is_last:
            closed[id(stack[-1][1])] = True
        stack.append((depth, node))
    # every parent with children must have been closed by an 'end' branch
    def verify(node):
        if node and not closed.get(id(node)):
            raise Violation("decode", "children list not terminated by an 'end' branch")
        for c in node:
            verify(c)
    verify(root)
    return root


def rendered_shape(start, childiter, maxlevel):
    limit = None if maxlevel is None else max(maxlevel, 1)

    def walk(node, depth):
        if limit is not None and depth + 1 >= limit:
            return []
        kids = list(node.children)
        if not kids:
            return []
        return [walk(k, depth + 1) for k in childiter(tuple(kids))]

    return walk(start, 0)


OTHER_BREAKS = ["\r", "\x0b", "\x0c", "\x1c", "\x1d", "\x1e", "\x85", "\u2028", "\u2029", "\r\n"]


class _Decoy:
    size = "decoy: the attribute 'size' of the attribute 'meta', not the attribute 'meta.size'"


def text_lines(value, universal=False):
    """Lines of a value. The statement does not say which characters end a line: '\\n' only (universal=False), or every
    line boundary str.splitlines knows (universal=True). A rendering must follow ONE of the two for all its values."""
    if isinstance(value, (list, tuple)):
        return [("%s" % (v,)) for v in value] or [""]
    if universal:
        return str(value).splitlines() or [""]
    return str(value).split("\n")


def check_case(case, acc):
    kind = case.get("kind", "rows")
    if kind == "repr":
        return check_repr(case, acc)
    cls = ReprNM if case.get("cls") == "ReprNM" else None
    make = (lambda i: ReprNM(str(i))) if cls else nodes.factory(case.get("cls", "Node"))
    tree = forest.build_tree(case["shape"], make)
    for i, node in enumerate(tree):
        node.idx = i
    labels = forest.Labels(tree)
    _rows_once(case, acc, tree, labels, cls)
    # one RenderTree object that is kept and used again after every mutation (it must draw the CURRENT tree)
    style, glyphs = style_of(case["style"])
    kept = RenderTree(tree[case["start"]], style=style, childiter=childiter_of(case["childiter"]), maxlevel=case["maxlevel"])
    list(kept)
    str(kept)
    # read - mutate - read again: the drawing follows the current links and names
    for op in case.get("mutations", []):
        refs.mutate_tree(tree, op)
        _rows_once(case, acc, tree, labels, cls)
        exp = ref_rows(tree[case["start"]], childiter_of(case["childiter"]), case["maxlevel"], glyphs)
        if [(r.pre, r.fill, id(r.node)) for r in kept] != [(e[0], e[1], id(e[2])) for e in exp]:
            raise Violation("kept-rendertree", "a RenderTree object iterated again after the tree changed still shows the old drawing")
        acc.tag("re-rendered_after_mutation")
    # ... after the style object it draws with was given other glyphs (its vertical/cont/end are plain public attributes)
    if not isinstance(style, type) and all(len(g) >= 1 for g in glyphs):
        old = (style.vertical, style.cont, style.end)
        try:
            # same width, then another (still equal) width: whatever a style derives from its glyphs follows them
            for new in (("!" + old[0][1:], "+" + old[1][1:], "\\" + old[2][1:]), ("!" + old[0], "+" + old[1], "\\" + old[2]), ("!", "+", "\\")):
                style.vertical, style.cont, style.end = new
                exp = ref_rows(tree[case["start"]], childiter_of(case["childiter"]), case["maxlevel"], new)
                fresh = RenderTree(tree[case["start"]], style=style, childiter=childiter_of(case["childiter"]), maxlevel=case["maxlevel"])
                for what, rt in (("a RenderTree object that was iterated before", kept), ("a new RenderTree object", fresh)):
                    if [(r.pre, r.fill, id(r.node)) for r in rt] != [(e[0], e[1], id(e[2])) for e in exp]:
                        raise Violation("style-glyphs", "%s does not draw with the glyphs its style object has now (%r)" % (what, new))
        finally:
            style.vertical, style.cont, style.end = old
        acc.tag("re-rendered_after_the_style_object_changed")
    # ... and after its options were reassigned
    if case["maxlevel"] is not None:
        kept.maxlevel = None
        exp = ref_rows(tree[case["start"]], childiter_of(case["childiter"]), None, glyphs)
        if [(r.pre, r.fill, id(r.node)) for r in kept] != [(e[0], e[1], id(e[2])) for e in exp]:
            raise Violation("kept-rendertree", "a RenderTree object ignores a reassigned maxlevel")


def _rows_once(case, acc, tree, labels, cls):
    start = tree[case["start"]]
    style, glyphs = style_of(case["style"])
    childiter = childiter_of(case["childiter"])
    maxlevel = case["maxlevel"]
    before = forest.snapshot(tree, labels)

    exp = ref_rows(start, childiter, maxlevel, glyphs)
    rt = RenderTree(start, style=style, childiter=childiter, maxlevel=maxlevel)
    # a rendering abandoned half-way (a 'break' in a search loop) must not disturb any later rendering
    stale = iter(RenderTree(tree[0], style=style, childiter=childiter))
    for _ in range(min(3, len(tree))):
        next(stale, None)
    got = list(rt)
    if len(got) != len(exp):
        raise Violation("row-count", "expected %d rows got %d" % (len(exp), len(got)))
    for g, e in zip(got, exp):
        if not isinstance(g, Row):
            raise Violation("row-type", repr(type(g)))
        if g.node is not e[2]:
            raise Violation("row-order", "expected node %s got %s" % (labels.label(e[2]), labels.label(g.node)))
        if g.pre != e[0]:
            raise Violation("pre", "node %s expected %r got %r" % (labels.label(e[2]), e[0], g.pre))
        if g.fill != e[1]:
            raise Violation("fill", "node %s expected %r got %r" % (labels.label(e[2]), e[1], g.fill))
    # decode-back: shape from the text alone
    decoded = decode([g.pre for g in got], glyphs)
    shape = rendered_shape(start, childiter, maxlevel)
    if decoded != shape:
        raise Violation("decode-back", "drawing decodes to %s, rendered sub-tree is %s" % (decoded, shape))
    # two renderings advanced alternately
    if [(a.pre, a.fill, id(a.node)) for a, _ in zip(rt, RenderTree(tree[0], style=style))] != [(r.pre, r.fill, id(r.node)) for r in got][: len(refs.preorder(tree[0]))]:
        raise Violation("interleaved-iteration", "rows differ when two RenderTree iterations are advanced alternately")
    # positional argument form
    pos = list(RenderTree(start, style, childiter, maxlevel))
    if [(r.pre, r.fill, id(r.node)) for r in pos] != [(r.pre, r.fill, id(r.node)) for r in got]:
        raise Violation("positional-arguments", "RenderTree(node, style, childiter, maxlevel) differs from the keyword form")
    # two iterations of the SAME RenderTree object that overlap: one is started, another one runs to its end (also through
    # str() and by_attr()), then the first one is resumed
    want_rows = [(r.pre, r.fill, id(r.node)) for r in got]
    for k in sorted({1, len(got) // 2, max(len(got) - 1, 0)}):
        if not 0 < k < len(got):
            continue
        first = iter(rt)
        head = [next(first) for _ in range(k)]
        middle = list(rt)
        str(rt)
        rest = list(first)
        if [(r.pre, r.fill, id(r.node)) for r in head + rest] != want_rows or [(r.pre, r.fill, id(r.node)) for r in middle] != want_rows:
            raise Violation("overlapping-iterations", "rows differ when one iteration of a RenderTree object is resumed after another iteration of the same object ran (first %d rows taken before)" % k)
    # second iteration gives the same rows (RenderTree is re-iterable)
    again = list(rt)
    if [(r.pre, r.fill, id(r.node)) for r in again] != [(r.pre, r.fill, id(r.node)) for r in got]:
        raise Violation("re-iteration", "second iteration differs")

    mixed = any(len(e[4]) >= 2 and len(set(e[4])) == 2 for e in exp)
    multiline_deep = False

    values = case.get("values")
    if values is not None:
        sel = case.get("selector", "attr")
        realvals = {}
        for i, node in enumerate(tree):
            spec = values[i]
            if spec["t"] == "missing":
                continue
            if spec["t"] == "str":
                val = "\n".join(spec["v"])
            elif spec["t"] == "list":
                val = list(spec["v"])
            elif spec["t"] == "tuple":
                val = tuple(spec["v"])
            elif spec["t"] == "pairs":
                val = [tuple(x) for x in spec["v"]]  # a list of lines that are themselves tuples: each is printed as one value
            elif spec["t"] == "range":
                val = range(*spec["v"])  # a sequence, but neither list nor tuple: printed as ONE value, like any other object
            elif spec["t"] == "deque":
                val = collections.deque(spec["v"])
            else:
                val = spec["v"]
            realvals[id(node)] = val
            node.text = val if cls is None or isinstance(val, str) else str(val)
            if cls is None:
                node.label = val
            if case.get("dotted"):
                # an attribute whose NAME contains dots (keys of imported documents: 'meta.size', 'v1.0'), next to a decoy
                # that a dotted-path lookup would find instead
                setattr(node, "meta.size", node.label if cls is None else node.text)
                node.meta = _Decoy()
        texts = []
        for universal in (False, True):
            lines = []
            for e in exp:
                node = e[2]
                if sel == "repr":
                    val = repr(node)
                elif id(node) in realvals:
                    val = realvals[id(node)]
                else:
                    val = ""
                tl = text_lines(val, universal)
                if len(tl) > 1 and e[3] >= 1:
                    multiline_deep = True
                lines.append(e[0] + tl[0])
                lines.extend(e[1] + t for t in tl[1:])
            texts.append("\n".join(lines))
        expected_text = texts[0]
        if sel == "repr":
            got_text = str(rt)
        elif sel == "callable":
            got_text = rt.by_attr(lambda n: realvals.get(id(n), ""))
        else:
            got_text = rt.by_attr("meta.size" if case.get("dotted") else ("label" if cls is None else "text"))
        if got_text != expected_text and got_text != texts[1]:
            raise Violation("text-" + sel, "expected %r%s got %r" % (expected_text, "" if texts[1] == expected_text else " (or, with every str.splitlines boundary ending a line, %r)" % texts[1], got_text))
        acc.tag("values_with_other_line_boundaries", texts[0] != texts[1])
    else:
        # default by_attr() prints the names
        expected_text = "\n".join(e[0] + str(e[2].name) for e in exp)
        if rt.by_attr() != expected_text:
            raise Violation("by_attr-default", "expected %r got %r" % (expected_text, rt.by_attr()))
    if forest.snapshot(tree, labels) != before:
        raise Violation("no-mutation", "rendering changed the tree")
    acc.nontrivial(mixed or multiline_deep)
    acc.tag("mixed_continuation_flags", mixed)
    acc.tag("multiline_below_root", multiline_deep)
    acc.tag("rows", len(exp))
    acc.tag("maxlevel_cuts", len(exp) < len(refs.preorder(start)) and case["childiter"] in ("list", "reversed", "sort"))


def check_repr(case, acc):
    sep = case["sep"]
    base = {"Node": Node, "AnyNode": AnyNode}[case["cls"]]
    klass = type(case.get("clsname", "My" + case["cls"]), (base,), {"separator": sep})
    shape = forest.to_tuple(case["shape"])
    parents = shapes.shape_to_parents(shape)
    tree = []
    for i, parent in enumerate(parents):
        attrs = dict(case["attrs"][i])
        if case["cls"] == "Node":
            node = klass(case["names"][i], **attrs)
        else:
            node = klass(**attrs)
        if parent is not None:
            node.parent = tree[parent]
        tree.append(node)
    _repr_once(case, acc, tree, klass, sep)
    for op in case.get("mutations", []):
        # reprs show the CURRENT path of names: re-check after moves, detaches and renames of ancestors
        refs.mutate_tree(tree, op)
        _repr_once(case, acc, tree, klass, sep)
        acc.tag("repr_rechecked_after_mutation")
    acc.nontrivial(len(tree) >= 3 and any(len(a) >= 2 for a in case["attrs"]))
    acc.tag("repr_cases")


def _repr_once(case, acc, tree, klass, sep):
    index_of = {id(n): i for i, n in enumerate(tree)}
    for i, node in enumerate(tree):
        public = sorted((k, v) for k, v in vars(node).items() if not k.startswith("_"))
        if case["cls"] == "Node":
            chain = []
            cur = node
            while cur is not None:
                chain.append(cur)
                cur = cur.parent
            path = sep.join([""] + [str(vars(c)["name"]) for c in reversed(chain)])
            args = [repr(path)] + ["%s=%r" % (k, v) for k, v in public if k != "name"]
        else:
            args = ["%s=%r" % (k, v) for k, v in public]
        expected = "%s(%s)" % (klass.__name__, ", ".join(args))
        if repr(node) != expected:
            raise Violation("repr-" + case["cls"], "expected %r got %r" % (expected, repr(node)))
    # a symlink shows its target's repr
    link = SymlinkNode(tree[-1])
    if repr(link) != "SymlinkNode(%s)" % repr(tree[-1]):
        raise Violation("repr-SymlinkNode", repr(link))
    # str(RenderTree) prints exactly these reprs
    top = tree[0]
    while top.parent is not None:
        top = top.parent
    rows = ref_rows(top, list, None, ("│   ", "├── ", "└── "))
    lines = []
    for pre, fill, node, _, _ in rows:
        tl = repr(node).split("\n")
        lines.append(pre + tl[0])
        lines.extend(fill + t for t in tl[1:])
    if str(RenderTree(top)) != "\n".join(lines):
        raise Violation("str-rendertree", "str(RenderTree) differs from the rows' reprs")


# ---------------------------------------------------------------------------
SAFE_CHARS = "abcXYZ019 .-_/|\\'\"+*?[]()é漢\t"
LINE = st.one_of(st.text(alphabet=SAFE_CHARS, max_size=6), st.text(alphabet=SAFE_CHARS, max_size=6), st.text(alphabet=SAFE_CHARS + "\r\x0c\x85\u2028", max_size=6))


@st.composite
def multi_line(draw):
    lines = draw(st.lists(LINE, min_size=1, max_size=4))
    if len(lines) > 1 and lines[-1] == "":
        lines[-1] = "x"  # no trailing newline (see ASSUMPTIONS)
    return lines


VALUE = st.one_of(
    multi_line().map(lambda v: {"t": "str", "v": v}),
    multi_line().map(lambda v: {"t": "str", "v": v}),
    st.lists(LINE, max_size=3).map(lambda v: {"t": "list", "v": v}),
    st.lists(LINE, max_size=3).map(lambda v: {"t": "tuple", "v": v}),
    st.lists(st.lists(st.integers(0, 3), max_size=2), min_size=1, max_size=3).map(lambda v: {"t": "pairs", "v": v}),
    st.integers(-5, 5).map(lambda v: {"t": "int", "v": v}),
    st.tuples(st.integers(0, 2), st.integers(0, 4)).map(lambda v: {"t": "range", "v": list(v)}),
    st.lists(st.integers(0, 3), max_size=3).map(lambda v: {"t": "deque", "v": v}),
    st.just({"t": "missing"}),
    st.just({"t": "str", "v": [""]}),
)
GLYPH_CHARS = "|+-`~=:#>ab │├└╰｜＋漢└é\u0301"  # incl. full-width forms, an ideograph and a combining accent: 'width' is the number of characters


@st.composite
def custom_style(draw):
    width = draw(st.integers(1, 5))
    seg = st.text(alphabet=GLYPH_CHARS, min_size=width, max_size=width)
    vertical = draw(seg.filter(lambda s: s != " " * width))
    cont = draw(seg)
    end = draw(seg.filter(lambda s: s != cont))
    return [vertical, cont, end]


IDENT = st.one_of(
    st.text(alphabet="abcdefgh_", min_size=1, max_size=4),
    # names where one is a prefix of another and the longer one goes on with a digit or an underscore
    st.sampled_from(["a", "a1", "a10", "ab", "a_", "x", "x2", "x9", "x10", "col2", "col11", "v03", "v1", "id", "id0", "width", "width2", "width_max", "B", "b"]),
    # names that begin or end like the ones the reprs treat specially, and names of read-only node properties (legal data keys)
    st.sampled_from(["names", "name_de", "namespace", "nam", "rename", "targets", "target_id", "childrens", "parents", "size", "depth", "height", "path", "is_leaf"]),
).filter(lambda k: k not in ("parent", "children", "name", "separator"))
REPR_VALUE = st.one_of(st.integers(-3, 3), st.text(alphabet=SAFE_CHARS, max_size=4), st.none(), st.lists(st.integers(0, 2), max_size=2))


@st.composite
def random_cases(draw):
    which = draw(st.integers(0, 9))
    if which == 0:
        shape = draw(strategies.tree_shapes(max_nodes=8))
        size = shapes.shape_size(forest.to_tuple(shape))
        sep = draw(st.sampled_from(["/", "|", "::", "\\", " "]))
        names = [draw(st.one_of(st.text(alphabet="abc.* é", min_size=1, max_size=3), st.integers(0, 9))) for _ in range(size)]
        attrs = [draw(st.dictionaries(IDENT, REPR_VALUE, max_size=4)) for _ in range(size)]
        muts = draw(strategies.tree_mutations(rename_values=st.one_of(st.text(alphabet="xyz é", min_size=1, max_size=3), st.integers(10, 19))))
        return {"kind": "repr", "cls": draw(st.sampled_from(["Node", "AnyNode"])), "shape": shape, "sep": sep, "names": names, "attrs": attrs, "mutations": muts}
    shape = draw(strategies.tree_shapes(max_nodes=40, min_nodes=3))
    size = shapes.shape_size(forest.to_tuple(shape))
    cls = draw(st.sampled_from(["Node", "AnyNode", "PlainNM", "ReprNM", "ReprNM", "EqNode", "FalsyNode", "LenNode"]))
    case = {
        "kind": "rows",
        "shape": shape,
        "start": draw(st.one_of(st.just(0), st.integers(0, size - 1))),
        "style": draw(st.one_of(st.sampled_from(sorted(STYLES)), custom_style())),
        "childiter": draw(st.sampled_from(["list", "reversed", "sort", "filter", "genfilter"])),
        "maxlevel": draw(st.one_of(st.none(), st.integers(-1, 7), st.integers(-1, 7), st.sampled_from([0.5, 1.5, 2.5, 3.5, 2.0, -0.5]))),
        "cls": cls,
    }
    case["mutations"] = draw(strategies.tree_mutations(rename_values=st.text(alphabet="xyz", min_size=1, max_size=2)))
    if draw(st.integers(0, 3)):
        if cls == "ReprNM":
            case["values"] = [{"t": "str", "v": draw(multi_line())} for _ in range(size)]
            case["selector"] = draw(st.sampled_from(["repr", "attr", "callable"]))
        else:
            case["values"] = [draw(VALUE) for _ in range(size)]
            case["selector"] = draw(st.sampled_from(["attr", "callable"]))
        case["dotted"] = draw(st.booleans())
    return case


ENUM_STYLES = ["ascii", "cont", "round", "double", "double-class", ["|", "+", "`"], ["I  ", "T--", "L--"], ["｜ ", "＋－", "└漢"]]


def _enum_cases(max_nodes, index, count):
    k = 0
    for shape in shapes.trees_upto(max_nodes):
        size = shapes.shape_size(shape)
        height = shapes.shape_height(shape)
        for start in range(size):
            k += 1
            if k % count != index:
                continue
            for style in ENUM_STYLES:
                for childiter in ("list", "reversed", "sort", "filter", "genfilter"):
                    for maxlevel in [None, -1] + list(range(0, height + 3)) + sorted({1.5, max(height - 0.5, 0.5)}):
                        yield {"kind": "rows", "shape": forest.to_list(shape), "start": start, "style": style, "childiter": childiter, "maxlevel": maxlevel, "cls": ("Node", "EqNode", "LenNode", "Node", "FalsyNode")[k % 5]}


def _repr_cases():
    """Attribute names whose plain order differs from other plausible orders (numbers inside names, case, underscores):
    'sorted by name' is the order of the names as strings."""
    sets = [["x9", "x10", "x2"], ["col2", "col11", "col1"], ["v03", "v1", "v1_", "v"], ["B", "a", "_h", "b", "A"], ["k_1", "k1", "k-1".replace("-", "_"), "k10", "k9"], ["é", "e", "z", "E"]]
    for cls in ("Node", "AnyNode"):
        for j, names_ in enumerate(sets):
            for order in (names_, list(reversed(names_))):
                attrs = {name: i for i, name in enumerate(order)}
                yield {"kind": "repr", "cls": cls, "shape": [[]], "sep": "/", "names": ["r", "c"], "attrs": [attrs, dict(reversed(list(attrs.items())))], "mutations": []}


def _linebreak_cases():
    """Values with line boundaries other than '\\n', alone and next to '\\n', on nodes at depth 0, 1 and 2."""
    k = 0
    for brk in OTHER_BREAKS:
        for shape in ([[[]], []], [[], [[]]], [[[]]]):
            size = shapes.shape_size(forest.to_tuple(shape))
            for selector in ("attr", "callable"):
                for pattern in (0, 1, 2):
                    k += 1
                    vals = [["r1" + brk + "r2"], ["a1" + brk + "a2", "a3"], ["plain", "multi"], ["x"]]
                    values = [{"t": "str", "v": vals[(i + pattern) % 4]} for i in range(size)]
                    yield {"kind": "rows", "shape": shape, "start": 0, "style": ["cont", "ascii", "round", "double"][k % 4], "childiter": "list", "maxlevel": None, "cls": "Node", "values": values, "selector": selector, "dotted": k % 2 == 0}


def _wide_cases(widths):
    """A node with several hundred children, two of which have children of their own."""
    for width in widths:
        shape = [[] for _ in range(width)]
        shape[width // 2] = [[], []]
        shape[-1] = [[[]], []]
        for style in ("cont", ["I  ", "T--", "L--"]):
            for childiter in ("list", "reversed", "filter"):
                for maxlevel in (None, 2):
                    yield {"kind": "rows", "shape": [shape, []], "start": 1 if maxlevel else 0, "style": style, "childiter": childiter, "maxlevel": maxlevel, "cls": "Node"}


def plan(tier, seed):
    nshards = 16
    max_nodes = 6 if tier == "quick" else 8
    examples = 200 if tier == "quick" else 1500
    tasks = [{"engine": "enum", "max_nodes": max_nodes, "index": i, "count": nshards * 2} for i in range(nshards * 2)]
    tasks += [{"engine": "hyp", "examples": examples, "seed": seed * 1000 + i} for i in range(nshards)]
    tasks += [{"engine": "wide", "widths": [w]} for w in ((300, 520) if tier == "quick" else (257, 258, 300, 520, 1500))]
    tasks += [{"engine": "linebreaks"}, {"engine": "reprsets"}]
    return tasks


def run_task(task, acc):
    if task["engine"] == "wide":
        for case in _wide_cases(task["widths"]):
            exc = acc.evaluate(check_case, case, enumerated=False)
            if exc is not None:
                acc.add_violation(case, exc)
                break
        return
    if task["engine"] == "reprsets":
        acc.run_enum(check_case, _repr_cases())
    elif task["engine"] == "linebreaks":
        acc.run_enum(check_case, _linebreak_cases())
    elif task["engine"] == "enum":
        acc.run_enum(check_case, _enum_cases(task["max_nodes"], task["index"], task["count"]))
    else:
        acc.run_hypothesis(check_case, random_cases(), task["examples"], task["seed"])


def evidence_extra(total, tier):
    return {"exhaustive_subdomain": "every ordered tree shape with <= %d nodes x every start node x 7 styles x 5 childiters x every maxlevel" % (6 if tier == "quick" else 8)}
