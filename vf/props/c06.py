"""C06 - filter_, stop and maxlevel restrict all iterators in the same, compositional way."""
import sys

from hypothesis import strategies as st

from anytree import LevelOrderGroupIter, LevelOrderIter, PostOrderIter, PreOrderIter, ZigZagGroupIter

from .. import big, forest, nodes, refs, shapes, strategies
from ..core import Violation
from . import c05

PROP_ID = "C06"
LEVEL = "exploration"
QUICK_N, THOROUGH_N = 5, 6
RULE = (
    "cases = (shape, start node, stop set, filtered-out set, maxlevel, how empty predicates are passed, what the predicates return: bools, 1/0, 'x'/'' or [0]/None). The complete product "
    "is enumerated on every shape with <= 5 nodes (quick) / <= 6 nodes (thorough; plus all 7-node shapes with the root as start): every start node x every subset of the start's "
    "subtree as stop set x every subset as filtered-out set x maxlevel in {None, -1, 0, ..., subtree height + 2}; Hypothesis adds "
    "two parallel chains deeper than the interpreter's recursion limit with maxlevel in {None, 257, 258, 300, ...}, stop nodes and a filter for the three breadth-first iterators, and "
    "trees up to 25 nodes with random subsets, re-checked after mutations, with iterator objects also consumed in two portions. Non-trivial = at least two of {stop, filter_, maxlevel} actually remove an "
    "otherwise admitted node. Enumerated cases are distinct by construction; generated ones are hashed."
    ' Also: maxlevel 2**63/10**30/True; a trunk of 0.6 x the recursion limit for all five iterators; iterators created before a change.'
    ' Rounds 13-14: fractional maxlevels under one reading for all five iterators; options assigned after construction.'
)
ASSUMPTIONS = [
    "the traversal of a subtree is defined by .children alone: one node class (ShadowMRO) inherits unrelated class attributes named is_leaf/depth/height/size/... from a base listed before NodeMixin, and is iterated like any other",
    "reference = unrestricted reference order restricted to the admitted set (relative depth < maxlevel, no stop node on the path from the start node down to the node inclusive), then to filter-true nodes",
    "grouped iterators: one tuple per depth level that contains at least one admitted node",
    "predicates are pure functions of node identity; only the truth value of what they return matters",
    "an iterator object that has not handed out anything yet is lazy: it answers for the tree and the predicates as they are when it is consumed (generated cases only)",
]
_CACHE = {}
class PredicateBoom(Exception):
    """Raised by a user predicate half-way through an iteration."""


TRUTH_STYLES = [(True, False), (1, 0), ("x", ""), ([0], None)]


def _tree(case):
    key = (repr(case["shape"]), case["cls"])
    if _CACHE.get("key") != key:
        _CACHE["key"] = key
        _CACHE["tree"] = forest.build_tree(case["shape"], nodes.factory(case["cls"]))
    return _CACHE["tree"]


def check_very_deep(case, acc):
    """Restrictions on a tree deeper than the interpreter's recursion limit, for the three breadth-first iterators."""
    make = nodes.factory(case["cls"])
    depth = big.deep_size(1)
    root, left, right, twigs = big.build_double_ladder(make, depth)
    hide_ids = {id(n) for n in right[1::2]} | {id(t) for t in twigs[::2]}
    for start in (root, right[7]):
        for maxlevel in (None, 257, 258, 300, depth // 2, depth + 5):
            for stop_ids in (set(), {id(left[depth - 40])}, {id(left[300]), id(right[260])}):
                kw = dict(filter_=lambda n: id(n) not in hide_ids, stop=(lambda n: id(n) in stop_ids) if stop_ids else None, maxlevel=maxlevel)
                admitted = refs.admitted_ids(start, stop_ids, maxlevel)
                groups = refs.restricted_groups(start, admitted, hide_ids)
                ctx = "tree of height %d, maxlevel=%s, %d stop nodes" % (depth, maxlevel, len(stop_ids))
                got = list(LevelOrderIter(start, **kw))
                want = refs.restricted(refs.levelorder(start), admitted, hide_ids)
                if not refs.same_seq(got, want):
                    raise Violation("levelorder", "%s: LevelOrderIter yields %d nodes, expected %d" % (ctx, len(got), len(want)))
                got = list(LevelOrderGroupIter(start, **kw))
                if [c05._ids(g) for g in got] != [c05._ids(tuple(g)) for g in groups]:
                    raise Violation("levelordergroup", "%s: LevelOrderGroupIter yields %d tuples, expected %d" % (ctx, len(got), len(groups)))
                got = list(ZigZagGroupIter(start, **kw))
                if [c05._ids(g) for g in got] != [c05._ids(tuple(g)) for g in refs.zigzag(groups)]:
                    raise Violation("zigzag", "%s: ZigZagGroupIter yields %d tuples, expected %d (or a wrong direction)" % (ctx, len(got), len(groups)))
                acc.tag("restricted_iterations_on_trees_deeper_than_the_recursion_limit", 3)
    acc.nontrivial(True)


def check_deep(case, acc):
    """All five iterators with restrictions on a trunk of 0.6 x the interpreter's recursion limit with a small crown on top
    (the depth-first iterators descend recursively in the library, about one frame per level)."""
    make = nodes.factory(case["cls"])
    depth = int(0.6 * sys.getrecursionlimit())
    trunk = [make(0)]
    for i in range(1, depth):
        node = make(i)
        node.parent = trunk[-1]
        trunk.append(node)
    crown = forest.build_tree([[[], []], [[]], []], lambda i: make(depth + i))
    crown[0].parent = trunk[-1]
    tree = trunk + crown
    labels = forest.Labels(tree)
    for start, stop, hide, maxlevel in ((0, [], [], None), (0, [depth + 1], [3, depth], None), (5, [], [depth - 1], depth - 3), (depth - 10, [depth + 2], [], 12)):
        _once({"start": start, "stop": stop, "hide": hide, "maxlevel": maxlevel, "none_when_empty": True, "truth": start, "boom": 3}, acc, tree, labels)
    acc.tag("deep_trunk_cases")


def check_case(case, acc):
    level = case.get("maxlevel") if isinstance(case, dict) else None
    if isinstance(level, float) and level != int(level) and "read_as" not in case:
        # a maxlevel that is not a whole number has no prescribed reading ('depth below maxlevel' vs. levels counted from 1):
        # all five iterators - and every phase of the case - must follow ONE of the two
        import math

        first = None
        for reading in (math.floor(level), math.ceil(level)):
            try:
                return _check_case(dict(case, read_as=reading), acc)
            except Violation as exc:
                first = first or exc
        raise Violation(first.clause, "maxlevel=%r read as %d and as %d: %s" % (level, math.floor(level), math.ceil(level), first.detail))
    return _check_case(case, acc)


def _check_case(case, acc):
    if case.get("kind") == "deep":
        return check_deep(case, acc)
    if case.get("kind") == "very-deep":
        return check_very_deep(case, acc)
    if case.get("mutations"):
        tree = forest.build_tree(case["shape"], nodes.factory(case["cls"]))
        labels = forest.Labels(tree)
        _once(case, acc, tree, labels)
        for op in case["mutations"]:
            # iterator objects made before the change and not started yet answer for the tree as it is when they are used
            waiting, stop_ids, hide_ids = _make_waiting(case, tree)
            refs.mutate_tree(tree, op)
            _check_waiting(case, tree, waiting, stop_ids, hide_ids, "the tree changed")
            _once(case, acc, tree, labels)
            acc.tag("rechecked_after_mutation")
        # ... and for the predicates' answers at that time (a stop predicate that starts or ceases to hold for the start node)
        waiting, stop_ids, hide_ids = _make_waiting(case, tree)
        stop_ids.symmetric_difference_update({id(tree[case["start"]])})
        _check_waiting(case, tree, waiting, stop_ids, hide_ids, "stop(start node) changed its answer")
        return
    tree = _tree(case)
    _once(case, acc, tree, forest.Labels(tree))


ITERATORS = (PreOrderIter, PostOrderIter, LevelOrderIter, LevelOrderGroupIter, ZigZagGroupIter)


def _make_waiting(case, tree):
    start = tree[case["start"]]
    stop_ids = {id(tree[i]) for i in case["stop"]}
    hide_ids = {id(tree[i]) for i in case["hide"]}
    kw = dict(filter_=lambda n: id(n) not in hide_ids, stop=lambda n: id(n) in stop_ids, maxlevel=case["maxlevel"])
    waiting = []
    for k, cls in enumerate(ITERATORS):
        if (k + case.get("truth", 0)) % 2:
            # the options are public attributes of the iterator object: given to the constructor, or set afterwards (a
            # subclass that calls super().__init__(node) first, a caller narrowing an iterator before using it)
            it = cls(start)
            it.filter_, it.stop, it.maxlevel = kw["filter_"], kw["stop"], kw["maxlevel"]
        else:
            it = cls(start, **kw)
        waiting.append(it)
    return waiting, stop_ids, hide_ids


def _check_waiting(case, tree, waiting, stop_ids, hide_ids, what):
    start = tree[case["start"]]
    admitted = refs.admitted_ids(start, stop_ids, case.get("read_as", case["maxlevel"]))
    groups = refs.restricted_groups(start, admitted, hide_ids)
    wants = [
        refs.restricted(refs.preorder(start), admitted, hide_ids),
        refs.restricted(refs.postorder(start), admitted, hide_ids),
        refs.restricted(refs.levelorder(start), admitted, hide_ids),
        [tuple(g) for g in groups],
        [tuple(g) for g in refs.zigzag(groups)],
    ]
    for it, want in zip(waiting, wants):
        got = list(it)
        if [c05._ids(x) for x in got] != [c05._ids(x) for x in want]:
            raise Violation("created-earlier", "%s created before %s and used afterwards yields %d items, the current tree and predicates give %d (start=%s stop=%s hide=%s maxlevel=%s)" % (type(it).__name__, what, len(got), len(want), case["start"], case["stop"], case["hide"], case["maxlevel"]))


def _once(case, acc, tree, labels):
    start = tree[case["start"]]
    stop_ids = {id(tree[i]) for i in case["stop"]}
    hide_ids = {id(tree[i]) for i in case["hide"]}
    maxlevel = case["maxlevel"]
    before = forest.snapshot(tree, labels)

    # what a predicate returns is only judged by its truth value: besides bools, 1/0, 'x'/'' and [0]/None are returned
    yes, no = TRUTH_STYLES[case.get("truth", 0) % len(TRUTH_STYLES)]
    if case["stop"] or not case.get("none_when_empty", True):
        stop = lambda n: yes if id(n) in stop_ids else no  # noqa: E731
    else:
        stop = None
    if case["hide"] or not case.get("none_when_empty", True):
        filter_ = lambda n: yes if id(n) not in hide_ids else no  # noqa: E731
    else:
        filter_ = None

    admitted = refs.admitted_ids(start, stop_ids, case.get("read_as", maxlevel))
    exp_pre = refs.restricted(refs.preorder(start), admitted, hide_ids)
    exp_post = refs.restricted(refs.postorder(start), admitted, hide_ids)
    exp_level = refs.restricted(refs.levelorder(start), admitted, hide_ids)
    exp_groups = refs.restricted_groups(start, admitted, hide_ids)
    exp_zz = refs.zigzag(exp_groups)

    def lab(seq):
        return labels.labels(seq)

    ctx = "start=%s stop=%s hide=%s maxlevel=%s" % (case["start"], case["stop"], case["hide"], maxlevel)
    kw = dict(filter_=filter_, stop=stop, maxlevel=maxlevel)
    # an iteration abandoned after its first items must not influence later ones
    for cls in (PreOrderIter, PostOrderIter, LevelOrderIter, LevelOrderGroupIter, ZigZagGroupIter):
        stale = cls(start, **kw)
        next(stale, None)
        next(stale, None)
    # neither must an iteration that ended in an exception raised by a user predicate
    boom_at = case.get("boom", 1)
    for cls in (PreOrderIter, PostOrderIter, LevelOrderIter, LevelOrderGroupIter, ZigZagGroupIter):
        for which in ("filter_", "stop"):
            calls = [0]

            def raising(node, calls=calls):
                calls[0] += 1
                if calls[0] > boom_at:
                    raise PredicateBoom()
                return which == "filter_"

            try:
                list(cls(start, **{which: raising, "maxlevel": maxlevel}))
            except PredicateBoom:
                pass
    got = list(PreOrderIter(start, **kw))
    if not refs.same_seq(got, exp_pre):
        raise Violation("preorder", "%s expected %s got %s" % (ctx, lab(exp_pre), lab(got)))
    got = list(PostOrderIter(start, **kw))
    if not refs.same_seq(got, exp_post):
        raise Violation("postorder", "%s expected %s got %s" % (ctx, lab(exp_post), lab(got)))
    got = list(LevelOrderIter(start, **kw))
    if not refs.same_seq(got, exp_level):
        raise Violation("levelorder", "%s expected %s got %s" % (ctx, lab(exp_level), lab(got)))
    got = list(LevelOrderGroupIter(start, **kw))
    if len(got) != len(exp_groups) or not all(refs.same_seq(g, e) for g, e in zip(got, exp_groups)):
        raise Violation("levelordergroup", "%s expected %s got %s" % (ctx, [lab(g) for g in exp_groups], [lab(g) for g in got]))
    got = list(ZigZagGroupIter(start, **kw))
    if len(got) != len(exp_zz) or not all(refs.same_seq(g, e) for g, e in zip(got, exp_zz)):
        raise Violation("zigzag", "%s expected %s got %s" % (ctx, [lab(g) for g in exp_zz], [lab(g) for g in got]))
    # positional form of the arguments must mean the same
    got = list(PreOrderIter(start, filter_, stop, maxlevel))
    if not refs.same_seq(got, exp_pre):
        raise Violation("preorder-positional", "%s expected %s got %s" % (ctx, lab(exp_pre), lab(got)))
    if not refs.same_seq(list(PostOrderIter(start, filter_, stop, maxlevel)), exp_post):
        raise Violation("postorder-positional", ctx)
    if not refs.same_seq(list(LevelOrderIter(start, filter_, stop, maxlevel)), exp_level):
        raise Violation("levelorder-positional", ctx)
    got = list(LevelOrderGroupIter(start, filter_, stop, maxlevel))
    if len(got) != len(exp_groups) or not all(refs.same_seq(g, e) for g, e in zip(got, exp_groups)):
        raise Violation("levelordergroup-positional", ctx)
    got = list(ZigZagGroupIter(start, filter_, stop, maxlevel))
    if len(got) != len(exp_zz) or not all(refs.same_seq(g, e) for g, e in zip(got, exp_zz)):
        raise Violation("zigzag-positional", ctx)
    # a restricted iterator object used in two portions hands out the same sequence
    for mode, k in case.get("portions") or []:
        for cls, want in ((PreOrderIter, exp_pre), (PostOrderIter, exp_post), (LevelOrderIter, exp_level), (LevelOrderGroupIter, [tuple(g) for g in exp_groups]), (ZigZagGroupIter, [tuple(g) for g in exp_zz])):
            got = c05.consume(cls(start, **kw), mode, k)
            if [c05._ids(x) for x in got] != [c05._ids(x) for x in want]:
                raise Violation("resumed-iteration", "%s: %s used in two portions (%s, first %d) yields %d items, expected %d" % (ctx, cls.__name__, mode, k, len(got), len(want)))
    if forest.snapshot(tree, labels) != before:
        raise Violation("no-mutation", "tree changed by iteration")

    # non-trivial: at least two restrictions actually remove something
    acc.tag("maxlevel_not_a_whole_number", "read_as" in case)
    no_stop = refs.admitted_ids(start, set(), case.get("read_as", maxlevel))
    no_level = refs.admitted_ids(start, stop_ids, None)
    removes_stop = len(admitted) < len(no_stop)
    removes_level = len(admitted) < len(no_level)
    removes_filter = any(i in admitted for i in hide_ids)
    acc.nontrivial(removes_stop + removes_level + removes_filter >= 2)
    acc.tag("stop_removes", removes_stop)
    acc.tag("filter_removes", removes_filter)
    acc.tag("maxlevel_removes", removes_level)
    acc.tag("all_three_remove", removes_stop and removes_level and removes_filter)
    acc.tag("empty_group_present", any(not g for g in exp_groups))
    acc.tag("start_stopped_or_cut", not admitted)


def _subtree_labels(shape, start):
    parents = shapes.shape_to_parents(shape)
    out = [start]
    for idx in range(start + 1, len(parents)):
        if parents[idx] in out:
            out.append(idx)
    return out


def _enum_cases(max_nodes, index, count, min_nodes=1, root_only=False):
    k = 0
    for shape in shapes.trees_upto(max_nodes, start=min_nodes):
        size = shapes.shape_size(shape)
        lshape = forest.to_list(shape)
        parents = shapes.shape_to_parents(shape)
        for start in ([0] if root_only else range(size)):
            k += 1
            if k % count != index:
                continue
            sub = _subtree_labels(shape, start)
            depth = {start: 0}
            for idx in sub[1:]:
                depth[idx] = depth[parents[idx]] + 1
            height = max(depth.values())
            maxlevels = [None, -1] + list(range(0, height + 3)) + [(True, 2 ** 63, 10 ** 30)[k % 3]] + [(0.5, 1.5, 2.5)[k % 3]]
            variant = 0
            for stop in shapes.subsets(sub):
                for hide in shapes.subsets(sub):
                    for maxlevel in maxlevels:
                        variant += 1
                        yield {
                            "shape": lshape,
                            "start": start,
                            "stop": stop,
                            "hide": hide,
                            "maxlevel": maxlevel,
                            "none_when_empty": bool(variant % 2),
                            "truth": variant // 2,
                            "boom": variant % 4,
                            "cls": ("Node", "SlotLM", "EqNode", "FalsyNode", "Node", "LenNode", "Node", "ListNode", "TupleNode", "Node", "ShadowMRO")[variant % 11],
                        }


@st.composite
def random_cases(draw):
    shape = draw(strategies.tree_shapes(max_nodes=25, min_nodes=3))
    size = shapes.shape_size(forest.to_tuple(shape))
    start = draw(st.one_of(st.just(0), st.just(0), st.integers(0, size - 1)))
    stop = draw(strategies.subsets_of(size, max_size=4))
    hide = draw(strategies.subsets_of(size))
    maxlevel = draw(st.one_of(st.none(), st.integers(-1, 8), st.integers(-1, 8), st.sampled_from([True, 2 ** 31, 2 ** 63 - 1, 2 ** 63, 2 ** 64, 10 ** 30, 0.5, 1.5, 2.5, 3.5, 2.0])))
    return {
        "shape": shape,
        "start": start,
        "stop": stop,
        "hide": hide,
        "maxlevel": maxlevel,
        "none_when_empty": draw(st.booleans()),
        "truth": draw(st.integers(0, 3)),
        "boom": draw(st.integers(0, 6)),
        "portions": draw(st.lists(st.tuples(st.sampled_from(c05.CONSUME_MODES), st.integers(0, 8)).map(list), max_size=2)),
        "cls": draw(st.sampled_from(nodes.TREE_CLASSES + ["ShadowMRO"])),
        "mutations": draw(strategies.tree_mutations()),
    }


def plan(tier, seed):
    nshards = 16
    max_nodes = QUICK_N if tier == "quick" else THOROUGH_N
    examples = 300 if tier == "quick" else 2000
    tasks = [{"engine": "enum", "max_nodes": max_nodes, "index": i, "count": nshards * 4} for i in range(nshards * 4)]
    if tier == "thorough":
        # one size further for the root as start node (the iterators never look above the start node, so
        # non-root starts of 7-node shapes are the root starts of smaller shapes already enumerated)
        tasks += [{"engine": "enum", "max_nodes": 7, "min_nodes": 7, "root_only": True, "index": i, "count": 132} for i in range(132)]
    tasks += [{"engine": "hyp", "examples": examples, "seed": seed * 1000 + i} for i in range(nshards)]
    tasks += [{"engine": "very-deep", "cls": c} for c in ("Node", "SlotLM")]
    tasks += [{"engine": "deep", "cls": c} for c in ("Node", "SlotLM")]
    return tasks


def run_task(task, acc):
    if task["engine"] in ("very-deep", "deep"):
        case = {"kind": task["engine"], "cls": task["cls"]}
        exc = acc.evaluate(check_case, case, enumerated=False)
        if exc is not None:
            acc.add_violation(case, exc)
        return
    if task["engine"] == "enum":
        acc.run_enum(check_case, _enum_cases(task["max_nodes"], task["index"], task["count"], task.get("min_nodes", 1), task.get("root_only", False)))
    else:
        acc.run_hypothesis(check_case, random_cases(), task["examples"], task["seed"])


def exhaustive(tier):
    return False


def evidence_extra(total, tier):
    n = QUICK_N if tier == "quick" else THOROUGH_N
    return {
        "exhaustive_subdomain": "complete product start node x stop subset x filtered-out subset x maxlevel on every ordered tree shape with <= %d nodes (subsets range over the start node's subtree; nodes outside it are never visited)" % n,
        "exhaustive_subdomain_complete": True,
    }
