"""C14 - search functions return the filtered pre-order and enforce their count bounds."""
import re

from hypothesis import strategies as st

import anytree
from anytree import AnyNode, CountError, cachedsearch, search

from .. import forest, refs, shapes, strategies
from ..core import Violation
from . import c06

PROP_ID = "C14"
LEVEL = "exploration"
RULE = (
    "cases = (tree <= 20 nodes of AnyNode where each node carries the searched attributes 'name'/'kind' only with some "
    "probability (values include strings with '%', a wildcard object equal to everything, one shared NaN object, which equals nothing, and records whose __eq__ raises AttributeError for foreign operands), start node, stop set, filtered-out set, maxlevel, attribute name and value); for every case all 25 "
    "(mincount, maxcount) combinations from {None, 0, c-1, c, c+1} around the real match count c are executed for findall and "
    "findall_by_attr, in anytree.search and anytree.cachedsearch, keyword and positional forms, plus find/find_by_attr. "
    "Shapes <= 5 nodes are enumerated with systematic attribute patterns; the rest is Hypothesis-generated. "
    "Non-trivial = c >= 1 (so a bound equal to c is exercised) and at least one node inside the searched region lacks the "
    "attribute, or c >= 2 (find must raise). Cases hashed for distinctness."
    ' Also: interdependent filter_/stop closures compared with PreOrderIter on fresh copies; values whose __eq__ raises AttributeError; callbacks failing with TypeError on their second call.'
    ' Rounds 11-14: every exception class from callbacks, classes as predicates, fractional maxlevels and count bounds, callable values. Round 16: every *_by_attr parameter by keyword (node=, value=).'
)
ASSUMPTIONS = [
    "reference result = reference pre-order restricted as in C06",
    "CountError message is only required to contain the match count and the violated bound as decimal numbers before the result repr",
]
# '%' in values ends up in node reprs and so in CountError messages; {"anyeq": 1} is a wildcard value (equal to everything, like unittest.mock.ANY)
VALUES = [1, "1", 2, "b", None, {"list": [1]}, {"tuple": [1]}, {"list": []}, "50%", "%d %s", "%%", {"anyeq": 1}, {"nan": 1}, {"fragile": 1}, {"fragile": 2}]
NAN = float("nan")  # ONE object, stored on nodes and used as search value: equal to nothing, not even to itself
ATTR_NAMES = ["name", "kind", "parent.name", "root.kind", "a.b"]
# attributes that exist without living in the instance dict: read-only node properties and a class-level default
SEARCH_NAMES = ATTR_NAMES + ["depth", "height", "is_leaf", "colour"]


def val(spec):
    """Attribute / search values are JSON in the case description; lists and tuples are tagged."""
    if isinstance(spec, dict):
        if "anyeq" in spec:
            return AnyEq()
        if "nan" in spec:
            return NAN
        if "fragile" in spec:
            return FragileEq(spec["fragile"])
        return list(spec["list"]) if "list" in spec else tuple(spec["tuple"])
    return spec


class FragileEq(object):
    """A record whose __eq__ assumes its own kind on the other side: comparing it with None or a string raises AttributeError."""

    __hash__ = None

    def __init__(self, x):
        self.x = x

    def __eq__(self, other):
        return self.x == other.x

    def __ne__(self, other):
        return self.x != other.x

    def __repr__(self):
        return "FragileEq(%r)" % (self.x,)


class AnyEq(object):
    """A value that compares equal to everything ('all nodes that have the attribute')."""

    def __eq__(self, other):
        return True

    def __ne__(self, other):
        return False

    __hash__ = None

    def __repr__(self):
        return "<ANY 100%>"
class ColourNode(AnyNode):
    colour = 1  # class-level default; some instances override it


NODE_CLASSES = {"AnyNode": AnyNode, "ColourNode": ColourNode}


def _register_classes():
    from . import c10

    NODE_CLASSES.update({"LenAnyNode": c10.LenAnyNode, "EqAnyNode": c10.EqAnyNode})


_register_classes()
MISSING = "<missing>"


def build(case):
    shape = forest.to_tuple(case["shape"])
    parents = shapes.shape_to_parents(shape)
    tree = []
    for idx, parent in enumerate(parents):
        attrs = {}
        for key in ATTR_NAMES + ["colour"]:
            spec = case["attrs"][idx].get(key, MISSING)
            if spec != MISSING:
                attrs[key] = val(spec)
        node = NODE_CLASSES[case.get("cls", "AnyNode")](**attrs)
        node.idx = idx
        if parent is not None:
            node.parent = tree[parent]
        tree.append(node)
    return tree


def outcome(func, *args, **kwargs):
    try:
        return ("ok", func(*args, **kwargs))
    except CountError as exc:
        return ("CountError", str(exc))


def numbers_before_repr(msg):
    head = msg.split("(", 1)[0]
    return [int(x) for x in re.findall(r"-?\d+", head)]


def check_findall_result(what, out, expected, mincount, maxcount, labels):
    c = len(expected)
    must_raise = (mincount is not None and c < mincount) or (maxcount is not None and c > maxcount)
    ctx = "%s mincount=%r maxcount=%r matches=%d" % (what, mincount, maxcount, c)
    if must_raise:
        if out[0] != "CountError":
            raise Violation("counterror-missing", ctx)
        nums = numbers_before_repr(out[1])
        violated = []
        if mincount is not None and c < mincount:
            violated.append(mincount)
        if maxcount is not None and c > maxcount:
            violated.append(maxcount)
        if c not in nums or not any(b in nums for b in violated):
            raise Violation("counterror-message", "%s message %r" % (ctx, out[1]))
    else:
        if out[0] != "ok":
            raise Violation("counterror-spurious", "%s raised %s" % (ctx, out[1]))
        if not isinstance(out[1], tuple):
            raise Violation("result-type", "%s returned %s" % (ctx, type(out[1]).__name__))
        if not refs.same_seq(out[1], expected):
            raise Violation("findall-result", "%s expected %s got %s" % (ctx, labels.labels(expected), labels.labels(out[1])))


def same_outcome(a, b):
    if a[0] != b[0]:
        return False
    if a[0] == "CountError":
        return a[1] == b[1]
    x, y = a[1], b[1]
    if isinstance(x, tuple) and isinstance(y, tuple):
        return refs.same_seq(x, y)
    return x is y


def check_case(case, acc):
    level = case.get("maxlevel") if isinstance(case, dict) else None
    if isinstance(level, float) and level != int(level) and "read_as" not in case:
        # a maxlevel that is not a whole number: no reading is prescribed, but the search functions follow ONE reading in all
        # their forms, and it is the reading of the iterators (compared with the breadth-first iterator, whose code is another)
        import math

        first = None
        for reading in (math.floor(level), math.ceil(level)):
            try:
                return _check_case(dict(case, read_as=reading), acc)
            except Violation as exc:
                first = first or exc
        raise Violation(first.clause, "maxlevel=%r read as %d and as %d: %s" % (level, math.floor(level), math.ceil(level), first.detail))
    return _check_case(case, acc)


def _check_case(case, acc):
    tree = build(case)
    labels = forest.Labels(tree)
    _once(case, acc, tree, labels)
    for op in case.get("mutations", []):
        # searches see the current links and attribute values
        refs.mutate_tree(tree, op)
        _once(case, acc, tree, labels)
        acc.tag("rechecked_after_mutation")


def _once(case, acc, tree, labels):
    start = tree[case["start"]]
    stop_ids = {id(tree[i]) for i in case["stop"]}
    hide_ids = {id(tree[i]) for i in case["hide"]}
    maxlevel = case["maxlevel"]
    _yes, _no = c06.TRUTH_STYLES[case.get("truth", 0) % 4]  # predicates are judged by truth value only
    stop = (lambda n: _yes if id(n) in stop_ids else _no) if case["stop"] else None
    filter_ = (lambda n: _yes if id(n) not in hide_ids else _no) if case["hide"] else None
    admitted = refs.admitted_ids(start, stop_ids, case.get("read_as", maxlevel))
    expected = refs.restricted(refs.preorder(start), admitted, hide_ids)
    if "read_as" in case:
        level_set = {id(n) for n in anytree.LevelOrderIter(start, filter_=filter_, stop=stop, maxlevel=maxlevel)}
        if level_set != {id(n) for n in expected}:
            raise Violation("findall-result", "maxlevel=%r read as %r: the breadth-first iterator admits %d nodes, this reading %d" % (maxlevel, case["read_as"], len(level_set), len(expected)))
        acc.tag("maxlevel_not_a_whole_number")
    c = len(expected)
    bounds = [None, 0, c - 1, c, c + 1]
    bounds = [b for i, b in enumerate(bounds) if b is None or (b >= 0 and b not in bounds[:i])]

    # bounds that are not whole numbers (an average, a ratio of a total) and an infinite upper bound: CountError iff the
    # number of matches is below mincount or above maxcount - compared as numbers (the wording of the message is not judged)
    for mincount, maxcount in ((c - 0.5, None), (c + 0.5, None), (None, c - 0.5), (None, c + 0.5), (0.5, c + 0.5), (None, float("inf")), (c, float("inf"))):
        if (mincount is not None and mincount < 0) or (maxcount is not None and maxcount < 0):
            continue
        must_raise = (mincount is not None and c < mincount) or (maxcount is not None and c > maxcount)
        for func in (search.findall, cachedsearch.findall):
            out = outcome(func, start, filter_=filter_, stop=stop, maxlevel=maxlevel, mincount=mincount, maxcount=maxcount)
            if must_raise != (out[0] == "CountError") or (not must_raise and (out[0] != "ok" or not refs.same_seq(out[1], expected))):
                raise Violation("counterror-missing" if must_raise else "counterror-spurious", "%s.findall mincount=%r maxcount=%r with %d matches: %s" % (func.__module__, mincount, maxcount, c, out[0]))
    acc.tag("count_bounds_that_are_not_whole_numbers")

    for mincount in bounds:
        for maxcount in bounds:
            out = outcome(search.findall, start, filter_=filter_, stop=stop, maxlevel=maxlevel, mincount=mincount, maxcount=maxcount)
            check_findall_result("findall", out, expected, mincount, maxcount, labels)
            pos = outcome(anytree.findall, start, filter_, stop, maxlevel, mincount, maxcount)
            if not same_outcome(out, pos):
                raise Violation("findall-positional", "keyword and positional forms differ")
            cached = outcome(cachedsearch.findall, start, filter_=filter_, stop=stop, maxlevel=maxlevel, mincount=mincount, maxcount=maxcount)
            if not same_outcome(out, cached):
                raise Violation("cachedsearch-findall", "mincount=%r maxcount=%r: %r vs %r" % (mincount, maxcount, out[0], cached[0]))
            cpos = outcome(cachedsearch.findall, start, filter_, stop, maxlevel, mincount, maxcount)
            if not same_outcome(out, cpos):
                raise Violation("cachedsearch-findall-positional", "mincount=%r maxcount=%r" % (mincount, maxcount))
    # find
    out = outcome(search.find, start, filter_=filter_, stop=stop, maxlevel=maxlevel)
    if c == 0:
        good = out == ("ok", None)
    elif c == 1:
        good = out[0] == "ok" and out[1] is expected[0]
    else:
        good = out[0] == "CountError"
    if not good:
        raise Violation("find", "matches=%d outcome=%r" % (c, out[0]))
    for other in (outcome(anytree.find, start, filter_, stop, maxlevel), outcome(cachedsearch.find, start, filter_=filter_, stop=stop, maxlevel=maxlevel), outcome(cachedsearch.find, start, filter_, stop, maxlevel)):
        if not same_outcome(out, other):
            raise Violation("find-variants", "find variants disagree")

    # callbacks that depend on each other ('the first N matches': filter_ records what it accepts, stop prunes once N are
    # recorded): findall is DEFINED as what PreOrderIter yields for the same arguments, so it must interleave them alike
    def first_n(limit):
        accepted = []

        def take(node):
            if id(node) in hide_ids:
                return False
            accepted.append(node)
            return True

        def enough(node):
            return len(accepted) >= limit or id(node) in stop_ids

        return take, enough

    for limit in (1, 2, 3):
        f1, s1 = first_n(limit)
        want = tuple(anytree.PreOrderIter(start, filter_=f1, stop=s1, maxlevel=maxlevel))
        for func in (search.findall, cachedsearch.findall):
            f2, s2 = first_n(limit)
            got = func(start, filter_=f2, stop=s2, maxlevel=maxlevel)
            if not refs.same_seq(got, want):
                raise Violation("findall-vs-preorderiter", "with callbacks that depend on each other (first %d matches) %s.findall returns %s, PreOrderIter yields %s" % (limit, func.__module__, labels.labels(got), labels.labels(want)))
    acc.tag("interdependent_callback_comparisons", 6)

    # a predicate may be any callable - also a CLASS whose instances carry the verdict as their truth value (bool itself, a
    # small 'Verdict(node)' class): it is called with the node, like any other predicate
    class Verdict:
        def __init__(self, node):
            self.keep = id(node) not in hide_ids

        def __bool__(self):
            return self.keep

    class Cut(Verdict):
        def __init__(self, node):
            self.keep = id(node) in stop_ids

    for kwargs_ in ({"filter_": Verdict}, {"filter_": bool}, {"filter_": Verdict, "stop": Cut}, {"stop": Cut}):
        want = tuple(anytree.PreOrderIter(start, maxlevel=maxlevel, **kwargs_))
        for func in (search.findall, cachedsearch.findall):
            got = func(start, maxlevel=maxlevel, **kwargs_)
            if not refs.same_seq(got, want):
                raise Violation("findall-vs-preorderiter", "with classes as predicates (%s) %s.findall returns %s, PreOrderIter yields %s" % (sorted(kwargs_), func.__module__, labels.labels(got), labels.labels(want)))

    # a callback that fails with TypeError on its second call only: cachedsearch gives the same result OR ERROR as search
    def flaky():
        calls = [0]

        def pred(node):
            calls[0] += 1
            if calls[0] == 2:
                raise TypeError("not ready yet")
            return id(node) not in hide_ids

        return pred

    def attempt(func, **kw):
        try:
            return ("ok", labels.labels(func(start, maxlevel=maxlevel, **kw)) if func.__name__ == "findall" else labels.label(func(start, maxlevel=maxlevel, **kw)))
        except Exception as exc:  # noqa: BLE001 - the exception class is the compared outcome
            return ("raised", type(exc).__name__)

    # a callback that raises (next() on an exhausted iterator, n.children[0] on a leaf, a failed lookup ...): findall and
    # find fail the way PreOrderIter fails for the same arguments - whatever the exception class is
    def raiser(exc_class, at):
        calls = [0]

        def pred(node):
            calls[0] += 1
            if calls[0] == at:
                raise exc_class("raised by the callback")
            return id(node) not in hide_ids

        return pred

    sweep = case.get("raise_sweep", 0)
    classes = (StopIteration, IndexError, KeyError, LookupError, ValueError, AttributeError, RuntimeError, ZeroDivisionError, OSError, anytree.search.CountError)
    for offset, exc_class in enumerate(classes):
        at = 1 + (sweep + offset) % 3
        for which in ("filter_", "stop"):
            try:
                seq = tuple(anytree.PreOrderIter(start, maxlevel=maxlevel, **{which: raiser(exc_class, at)}))
                want = ("ok", labels.labels(seq))
                want_find = ("ok", labels.label(seq[0] if seq else None)) if len(seq) <= 1 else ("raised", "CountError")
            except Exception as exc:  # noqa: BLE001
                want = want_find = ("raised", type(exc).__name__)
            for mod in (search, cachedsearch):
                got = attempt(mod.findall, **{which: raiser(exc_class, at)})
                if got != want:
                    raise Violation("findall-vs-preorderiter", "with a %s that raises %s on call %d PreOrderIter gives %r, %s.findall %r" % (which, exc_class.__name__, at, want, mod.__name__, got))
                got = attempt(mod.find, **{which: raiser(exc_class, at)})
                if got != want_find:
                    raise Violation("find-vs-preorderiter", "with a %s that raises %s on call %d find must give %r (from what PreOrderIter does), %s.find gives %r" % (which, exc_class.__name__, at, want_find, mod.__name__, got))
    acc.tag("raising_callback_comparisons", len(classes) * 8)
    for name_ in ("findall", "find"):
        for which in ("filter_", "stop"):
            plain = attempt(getattr(search, name_), **{which: flaky()})
            cached = attempt(getattr(cachedsearch, name_), **{which: flaky()})
            if plain != cached:
                raise Violation("cachedsearch-" + name_, "with a %s that raises TypeError on its second call, search.%s gives %r and cachedsearch.%s gives %r" % (which, name_, plain, name_, cached))

    # values that are themselves callable (a class stored as 'kind', a handler function, a partial): a value is compared, never called
    import functools

    def handler(x):
        raise AssertionError("a searched value was called with %r" % (x,))

    callables = [str, int, handler, functools.partial(handler, 1)]
    marked = []
    for i, node in enumerate(refs.preorder(start)):
        if isinstance(node, anytree.SymlinkNodeMixin) or not hasattr(node, "__dict__"):
            continue
        node.__dict__["kind_"] = callables[i % len(callables)]
        marked.append(node)
    try:
        for wanted in callables:
            want_nodes = [n for n in refs.restricted(refs.preorder(start), refs.admitted_ids(start, set(), case.get("read_as", maxlevel)), set()) if any(n is m for m in marked) and n.__dict__["kind_"] is wanted]
            for mod in (search, cachedsearch):
                out = outcome(mod.findall_by_attr, start, wanted, name="kind_", maxlevel=maxlevel)
                if out[0] != "ok" or not refs.same_seq(out[1], want_nodes):
                    raise Violation("by-attr-result", "%s.findall_by_attr(value=%r, name='kind_'): %s %s, expected the %d nodes whose attribute IS that object" % (mod.__name__, wanted, out[0], labels.labels(out[1]) if out[0] == "ok" else out[1], len(want_nodes)))
    finally:
        for node in marked:
            del node.__dict__["kind_"]
    acc.tag("searched_values_that_are_callable")

    # by attribute
    name, value = case["by"]["name"], val(case["by"]["value"])
    region = refs.restricted(refs.preorder(start), refs.admitted_ids(start, set(), case.get("read_as", maxlevel)), set())
    lacking = 0
    exp_attr = []
    for node in region:
        try:
            have = getattr(node, name)  # "the attribute exists" - wherever it comes from (instance, class, property)
        except AttributeError:
            lacking += 1
            continue
        try:
            same = have == value
        except AttributeError:
            continue  # 'never an AttributeError': a comparison that cannot be made is no match
        if same:
            exp_attr.append(node)
    ca = len(exp_attr)
    abounds = [None, 0, ca - 1, ca, ca + 1]
    abounds = [b for i, b in enumerate(abounds) if b is None or (b >= 0 and b not in abounds[:i])]
    for mincount in abounds:
        for maxcount in abounds:
            try:
                out = outcome(search.findall_by_attr, start, value, name=name, maxlevel=maxlevel, mincount=mincount, maxcount=maxcount)
            except AttributeError as exc:
                raise Violation("by_attr-attributeerror", str(exc))
            check_findall_result("findall_by_attr(%r=%r)" % (name, value), out, exp_attr, mincount, maxcount, labels)
            for other in (
                outcome(anytree.findall_by_attr, start, value, name, maxlevel, mincount, maxcount),
                outcome(cachedsearch.findall_by_attr, start, value, name=name, maxlevel=maxlevel, mincount=mincount, maxcount=maxcount),
                outcome(cachedsearch.findall_by_attr, start, value, name, maxlevel, mincount, maxcount),
                # every parameter by keyword, the searched value included (round 16: a wrapper that drops keywords that are None)
                outcome(search.findall_by_attr, node=start, value=value, name=name, maxlevel=maxlevel, mincount=mincount, maxcount=maxcount),
                outcome(cachedsearch.findall_by_attr, node=start, value=value, name=name, maxlevel=maxlevel, mincount=mincount, maxcount=maxcount),
            ):
                if not same_outcome(out, other):
                    raise Violation("findall_by_attr-variants", "mincount=%r maxcount=%r" % (mincount, maxcount))
    if name == "name":
        out = outcome(search.findall_by_attr, start, value, maxlevel=maxlevel)
        check_findall_result("findall_by_attr(default name)", out, exp_attr, None, None, labels)
    try:
        out = outcome(search.find_by_attr, start, value, name=name, maxlevel=maxlevel)
    except AttributeError as exc:
        raise Violation("by_attr-attributeerror", str(exc))
    if ca == 0:
        good = out == ("ok", None)
    elif ca == 1:
        good = out[0] == "ok" and out[1] is exp_attr[0]
    else:
        good = out[0] == "CountError"
    if not good:
        raise Violation("find_by_attr", "matches=%d outcome=%r" % (ca, out[0]))
    for other in (outcome(anytree.find_by_attr, start, value, name, maxlevel), outcome(cachedsearch.find_by_attr, start, value, name=name, maxlevel=maxlevel), outcome(cachedsearch.find_by_attr, start, value, name, maxlevel), outcome(search.find_by_attr, node=start, value=value, name=name, maxlevel=maxlevel), outcome(cachedsearch.find_by_attr, node=start, value=value, name=name, maxlevel=maxlevel)):
        if not same_outcome(out, other):
            raise Violation("find_by_attr-variants", "variants disagree")

    acc.nontrivial((ca >= 1 and lacking >= 1) or c >= 2)
    acc.tag("region_has_node_lacking_attr", lacking >= 1)
    acc.tag("findall_matches>=2", c >= 2)
    acc.tag("by_attr_matches==1", ca == 1)
    acc.tag("by_attr_matches>=2", ca >= 2)
    acc.tag("restricted_by_stop_or_filter", bool(case["stop"] or case["hide"]))


ATTR_VALUE = st.sampled_from(VALUES + [MISSING, MISSING])


@st.composite
def random_cases(draw, max_nodes=20):
    shape = draw(strategies.tree_shapes(max_nodes=max_nodes, min_nodes=1))
    size = shapes.shape_size(forest.to_tuple(shape))
    attrs = [{"name": draw(ATTR_VALUE), "kind": draw(ATTR_VALUE), "parent.name": draw(st.one_of(st.just(MISSING), st.just(MISSING), ATTR_VALUE)), "a.b": draw(st.one_of(st.just(MISSING), ATTR_VALUE)), "colour": draw(st.sampled_from([MISSING, MISSING, 2]))} for _ in range(size)]
    return {
        "shape": shape,
        "attrs": attrs,
        "start": draw(st.one_of(st.just(0), st.integers(0, size - 1))),
        "stop": draw(strategies.subsets_of(size, max_size=2)),
        "hide": draw(strategies.subsets_of(size, max_size=size)),
        "maxlevel": draw(st.one_of(st.none(), st.none(), st.integers(0, 5), st.integers(0, 5), st.sampled_from([0.5, 1.5, 2.5, 3.5]))),
        "truth": draw(st.integers(0, 3)),
        "by": draw(st.one_of(
            st.fixed_dictionaries({"name": st.sampled_from(ATTR_NAMES), "value": st.sampled_from(VALUES)}),
            st.fixed_dictionaries({"name": st.sampled_from(["depth", "height"]), "value": st.integers(0, 3)}),
            st.fixed_dictionaries({"name": st.just("is_leaf"), "value": st.booleans()}),
            st.fixed_dictionaries({"name": st.just("colour"), "value": st.sampled_from([1, 2, "1"])}),
        )),
        "cls": draw(st.sampled_from(["AnyNode", "AnyNode", "LenAnyNode", "EqAnyNode", "ColourNode", "ColourNode"])),
        "mutations": draw(st.lists(st.one_of(strategies.tree_mutation_op(), st.tuples(st.just("rename"), st.integers(0, 30), st.sampled_from([1, "1", 2, "b", None]), st.sampled_from(["name", "kind"])).map(list)), max_size=3)),
    }


def _enum_cases(max_nodes, index, count):
    k = 0
    patterns = [[1, MISSING, 2], [MISSING, 1, 1], [1, 1, "1"], ["b", MISSING, MISSING]]
    for shape in shapes.trees_upto(max_nodes):
        size = shapes.shape_size(shape)
        for pat in patterns:
            for start in range(size):
                for maxlevel in (None, 0, 1, 2, 1.5):
                    for value in (1, "1", None):
                        k += 1
                        if k % count != index:
                            continue
                        attrs = [{"name": pat[(i + start) % 3], "kind": pat[(2 * i + 1) % 3]} for i in range(size)]
                        yield {
                            "shape": forest.to_list(shape),
                            "attrs": attrs,
                            "start": start,
                            "stop": [size - 1] if k % 3 == 0 else [],
                            "hide": [0] if k % 5 == 0 else [],
                            "maxlevel": maxlevel,
                            "truth": k,
                            "by": {"name": ("name", "kind", "parent.name", "a.b", "depth", "is_leaf")[k % 6], "value": value if k % 6 < 4 else (k // 6) % 2},
                        }


def plan(tier, seed):
    nshards = 16
    examples = 250 if tier == "quick" else 6000
    max_nodes = 4 if tier == "quick" else 6
    tasks = [{"engine": "enum", "max_nodes": max_nodes, "index": i, "count": nshards} for i in range(nshards)]
    tasks += [{"engine": "hyp", "examples": examples, "seed": seed * 1000 + i} for i in range(nshards)]
    return tasks


def run_task(task, acc):
    if task["engine"] == "enum":
        # systematic cases are a structured sample, not a complete product: count them by hash like generated ones
        for case in _enum_cases(task["max_nodes"], task["index"], task["count"]):
            exc = acc.evaluate(check_case, case, enumerated=False)
            if exc is not None:
                acc.add_violation(case, exc)
                break
    else:
        acc.run_hypothesis(check_case, random_cases(), task["examples"], task["seed"])
