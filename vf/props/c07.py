"""C07 - Resolver.get returns the node a path denotes and fails cleanly when none exists."""
from hypothesis import strategies as st

from anytree import ChildResolverError, Resolver, ResolverError, RootResolverError, Walker

from .. import big, forest, refs, resolver_ref as rr, shapes, strategies
from ..core import Violation

PROP_ID = "C07"
LEVEL = "exploration"
RULE = (
    "cases = (tree <= 12 nodes, names over an alphabet with regex/wildcard metacharacters, quotes, backslash, newline, non-ASCII case "
    "pairs and the other separators; class-level separator from {/,|,::,\\,-,space}; pathattr name/id; ignorecase; list of (start, path)). "
    "Per case: the absolute path of every node n and the relative path spelled from Walker.walk(m, n) for every ordered pair (m, n) "
    "(with random case flips under ignorecase), plus generated component sequences over {tree names, unknown names, '..', '.', ''} with "
    "leading/trailing/double separators; every path is resolved in strict and in relaxed mode (in half of the generated cases right after the same text "
    "was used as a glob() pattern, which fills the class-level pattern cache). Exhaustive part: all shapes <= 4 nodes x "
    "all component sequences of length <= 3 over a 7-symbol alphabet. Non-trivial path = >= 2 effective components and it reaches a "
    "node other than the start or fails at a component other than the first; distinct_nontrivial counts cases containing such a path."
    " Also: names that are ints or str subclasses with their own __str__; resolvers built with keywords, positionally, with only non-default options and by a subclass configuring itself after the base constructor; paths with more components than the interpreter's recursion limit (zig-zag on two nodes; chains that deep)."
    " Also: unreprable nodes (relaxed misses), tuple names, foreign-separator priming, trees mixing separators, first components glued to the root's name."
    ' Rounds 11-14: enum/bytes/dot-only names, separator-containing names, str-subclass paths, wide parents with renames, dotted path attributes, SymlinkNodes in trees.'
)
ASSUMPTIONS = [
    "names never contain a character of the class separator and are never '', '.', '..' (not addressable by construction)",
    "characters whose upper/lower/casefold mappings disagree are not generated (the statement does not say which folding applies)",
    "every node carries the path attribute",
    "Root/ChildResolverError.node must be the node at which the failing component was evaluated and ChildResolverError.child that component; messages are not compared",
]
SEPS = ["/", "|", "::", "\\", "-", " ", "->", "x", " of "]
ALPHABET = "abAB01.+*?[]()|^$\\ '\"\néÉжЖ漢/:-\u0301\u2000{},"  # incl. braces (quantifier look-alikes), a combining accent and EN QUAD: text that Unicode normalisation would rewrite


def flip_case(text, mask):
    out = []
    for i, ch in enumerate(text):
        out.append(ch.swapcase() if mask >> (i % 16) & 1 and len(ch.swapcase()) == 1 else ch)
    return "".join(out)


def run_get(resolver, start, path):
    try:
        return ("node", resolver.get(start, path), None)
    except ResolverError as exc:
        return ("error", type(exc).__name__, exc)
    except Exception as exc:  # noqa: BLE001
        return ("crash", type(exc).__name__, exc)


_RESOLVERS = {}


class ConfiguredLater(Resolver):
    """A user subclass that sets the (public, plain) option attributes itself after calling the base constructor."""

    def __init__(self, pathattr, ignorecase, relax):
        super(ConfiguredLater, self).__init__()
        self.pathattr = pathattr
        self.ignorecase = ignorecase
        self.relax = relax


def resolver(pathattr, ic, relax):
    """Resolver objects are kept for the whole process: results must not depend on what an instance did before."""
    key = (pathattr, ic, relax)
    if key not in _RESOLVERS:
        # keyword form, positional form, and a subclass that configures the public attributes after the base constructor ran
        # ... and one that passes only what differs from the documented defaults (name, case-sensitive, strict)
        sparse = {k: v for k, v, default in (("pathattr", pathattr, "name"), ("ignorecase", ic, False), ("relax", relax, False)) if v != default}
        _RESOLVERS[key] = [Resolver(pathattr, ignorecase=ic, relax=relax), Resolver(pathattr, ic, relax), ConfiguredLater(pathattr, ic, relax), Resolver(**sparse)]
    trio = _RESOLVERS[key]
    trio.append(trio.pop(0))
    return trio[0]


_FOREIGN = {}


def foreign_tree(sep):
    """A small tree of a class with ANOTHER separator: the same path text means something else there."""
    other = "|" if sep != "|" else "/"
    if other not in _FOREIGN:
        cls = rr.make_class(other, "name")
        top = cls("top")
        cls("b", parent=cls("a", parent=top))
        cls("a|b", parent=top)
        cls("a/b", parent=top)
        _FOREIGN[other] = top
    return _FOREIGN[other]


def use_on_foreign_tree(case, path, ic):
    """The same text used on a tree with another separator just before (get and glob, same options): nothing that is
    remembered about a path text may carry over to a class that splits it differently."""
    top = foreign_tree(case["sep"])
    for relax in (True, False):
        for method in ("get", "glob"):
            try:
                getattr(resolver("name", ic, relax), method)(top, path)
            except Exception:  # noqa: BLE001 - what the text means over there is not the point
                pass


def check_path(case, nodes, labels, start, path, acc):
    sep, pathattr, ic = case["sep"], case["pathattr"], case["ignorecase"]
    exp = rr.ref_get(start, path, sep, pathattr, ic)
    if case.get("foreign_first"):
        use_on_foreign_tree(case, path, ic)
        acc.tag("paths_used_on_a_tree_with_another_separator_first")
    if case.get("prime_glob"):
        # the same text used as a glob pattern just before (any instance, same options): what glob() remembers about a
        # pattern must not change what get() does with the same text as a literal path
        for relax in (True, False):
            try:
                resolver(pathattr, ic, relax).glob(start, path)
            except Exception:  # noqa: BLE001 - glob's own behaviour is C08's business
                pass
        acc.tag("paths_used_as_glob_pattern_first")
    given = path
    if case.get("path_as") == "tagged" and len(sep) == 1:  # (with a longer separator str.split itself hands back the subclass object when nothing is split)
        # the path handed over as an instance of a str SUBCLASS whose str() differs from its characters (a `class Kind(str,
        # Enum)` member, a decorated string): a path is its characters
        given = rr.TaggedName(path)
        acc.tag("paths_given_as_str_subclass_objects")
    strict = run_get(resolver(pathattr, ic, False), start, given)
    relaxed = run_get(resolver(pathattr, ic, True), start, given)
    ctx = "get(%s, %r) sep=%r pathattr=%s ignorecase=%s names=%s" % (labels.label(start), path, sep, pathattr, ic, case["names"])
    if case.get("unreprable") and exp[0] != "node":
        # strict mode words its refusal with the node's repr, which this class does not have; relaxed mode has nothing to word
        if relaxed[0] != "node" or relaxed[1] is not None:
            raise Violation("relaxed-raises" if relaxed[0] != "node" else "relaxed-not-none", "%s: relax=True on nodes whose repr() cannot be evaluated gave %s %s instead of None" % (ctx, relaxed[0], relaxed[1]))
        return exp
    if exp[0] == "node":
        if strict[0] != "node" or strict[1] is not exp[1]:
            raise Violation("strict-result", "%s expected node %s, got %s %s" % (ctx, labels.label(exp[1]), strict[0], labels.label(strict[1]) if strict[0] == "node" else strict[1]))
        if relaxed[0] != "node" or relaxed[1] is not exp[1]:
            raise Violation("relaxed-result", "%s expected node %s, got %s %s" % (ctx, labels.label(exp[1]), relaxed[0], labels.label(relaxed[1]) if relaxed[0] == "node" else relaxed[1]))
    else:
        if strict[0] != "error" or strict[1] != exp[1]:
            raise Violation("strict-error-class", "%s expected %s, got %s %s" % (ctx, exp[1], strict[0], labels.label(strict[1]) if strict[0] == "node" else strict[1]))
        if exp[1] in ("RootResolverError", "ChildResolverError") and strict[2].node is not exp[2]:
            raise Violation("error-node", "%s: %s.node should be node %s, is %s" % (ctx, exp[1], labels.label(exp[2]), labels.label(strict[2].node)))
        if exp[1] == "ChildResolverError" and getattr(strict[2], "child", "<no attribute>") != exp[3]:
            raise Violation("error-child", "%s: ChildResolverError.child should be the component %r that could not be resolved, is %r" % (ctx, exp[3], getattr(strict[2], "child", "<no attribute>")))
        if relaxed[0] == "crash" or relaxed[0] == "error":
            raise Violation("relaxed-raises", "%s: relax=True raised %s: %s" % (ctx, relaxed[1], relaxed[2]))
        if relaxed[1] is not None:
            raise Violation("relaxed-not-none", "%s: relax=True returned node %s where strict mode must raise %s" % (ctx, labels.label(relaxed[1]), exp[1]))
    return exp


def effective(path, sep):
    parts = path.split(sep)
    return [p for p in parts if p not in ("", ".")]


def siblings_unique(nodes, pathattr, ic):
    for node in nodes:
        seen = set()
        for child in node.children:
            key = rr.attr(child, pathattr)
            key = key.lower() if ic else key
            if key in seen:
                return False
            seen.add(key)
    return True


def check_long(case, acc):
    """Paths with more components than the interpreter's recursion limit, on a two-node tree (zig-zag) and on a chain
    that deep: get() follows a path in a loop, so length is no excuse."""
    sep, ic = case["sep"], case["ignorecase"]
    base = {"sep": sep, "pathattr": "name", "ignorecase": ic, "names": ["top", "b"]}
    cls = rr.make_class(sep, "name")
    top = cls("top")
    b = cls("b")
    b.parent = top
    labels = forest.Labels([top, b])
    n = big.deep_size(1)
    zig = sep.join(["b", ".."] * n)
    for start, path, want in (
        (top, zig, top),
        (top, zig + sep + "b", b),
        (b, sep.join(["..", "b"] * n), b),
        (top, sep + "top" + sep + zig + sep + "." + sep + "b", b),
    ):
        exp = check_path(base, [top, b], labels, start, path, acc)
        if exp[0] != "node" or exp[1] is not want:
            raise Violation("round-trip", "zig-zag path of %d components does not denote the expected node" % (2 * n))
    for start, path, err in ((top, zig + sep + "zz", "ChildResolverError"), (top, zig + sep + ".." + sep + "..", "RootResolverError")):
        exp = check_path(base, [top, b], labels, start, path, acc)
        if exp[:2] != ("error", err):
            raise Violation("strict-error-class", "reference disagrees with itself on a long failing path: %r" % (exp[:2],))
    # a chain deeper than the limit: absolute path of the bottom node, and the way back up
    chain = [cls("n0")]
    for i in range(1, n):
        node = cls("n%d" % i)
        node.parent = chain[-1]
        chain.append(node)
    labels = forest.Labels(chain)
    deep = dict(base, names=["<chain of %d nodes>" % n])
    down = sep.join("n%d" % i for i in range(1, n))
    for start, path, want in ((chain[0], down, chain[-1]), (chain[5], sep + "n0" + sep + down, chain[-1]), (chain[-1], sep.join([".."] * (n - 1)), chain[0]), (chain[-1], sep.join([".."] * (n - 3)) + sep + "n3", chain[3])):
        exp = check_path(deep, chain, labels, start, path, acc)
        if exp[0] != "node" or exp[1] is not want:
            raise Violation("round-trip", "path along a chain of %d nodes does not denote the expected node" % n)
    exp = check_path(deep, chain, labels, chain[-1], sep.join([".."] * n), acc)
    if exp[:2] != ("error", "RootResolverError"):
        raise Violation("strict-error-class", "reference: %r" % (exp[:2],))
    acc.nontrivial(True)
    acc.tag("paths_longer_than_the_recursion_limit")


def build_mixed(seps):
    """One tree whose nodes belong to classes with different class-level separators (layout: r -> a, b; a -> c, d; c -> e)."""
    classes = [rr.make_class(sep, "name") for sep in seps]
    parents = [None, 0, 0, 1, 1, 3]
    names = ["r", "a", "b", "c", "d", "e"]
    nodes = []
    for i, parent in enumerate(parents):
        node = classes[i % len(classes)](names[i])
        if parent is not None:
            node.parent = nodes[parent]
        nodes.append(node)
    return nodes


def check_mixed(case, acc):
    """A path is read with the separator of the node the query starts at - whatever the classes of the root or of the
    nodes on the way (a tree may mix node classes)."""
    nodes = build_mixed(case["seps"])
    labels = forest.Labels(nodes)
    for start in nodes:
        sep = type(start).separator
        sub = {"sep": sep, "pathattr": "name", "ignorecase": case["ignorecase"], "names": ["r", "a", "b", "c", "d", "e"]}
        for target in nodes:
            chain = []
            cur = target
            while cur is not None:
                chain.append(cur.name)
                cur = cur.parent
            absolute = sep + sep.join(reversed(chain))
            for path in (absolute, absolute + sep + "..", absolute + sep + "zz", sep + "x" + absolute[len(sep) + 1:], sep.join([".."] * 2 + ["a"])):
                exp = check_path(sub, nodes, labels, start, path, acc)
                if path is absolute and (exp[0] != "node" or exp[1] is not target):
                    raise Violation("round-trip", "reference disagrees on %r" % (path,))
    acc.nontrivial(True)
    acc.tag("trees_mixing_separators")


def check_case(case, acc):
    if case.get("kind") == "mixed":
        return check_mixed(case, acc)
    if case.get("kind") == "long":
        return check_long(case, acc)
    nodes = rr.build(case)
    labels = forest.Labels(nodes)
    _once(case, acc, nodes, labels)
    for op in case.get("mutations", []):
        # paths denote nodes of the CURRENT tree: re-check after moves, detaches, re-orderings and renames
        refs.mutate_tree(nodes, op + [case["pathattr"]] if op[0] == "rename" else op)
        _once(case, acc, nodes, labels)
        acc.tag("rechecked_after_mutation")


def _once(case, acc, nodes, labels):
    sep, pathattr, ic = case["sep"], case["pathattr"], case["ignorecase"]
    before = forest.snapshot(nodes, labels)
    nontrivial = False
    checked0 = acc.tags["roundtrip_paths"] + acc.tags["generated_paths"]
    if case.get("roundtrip", True) and siblings_unique(nodes, pathattr, ic):
        walker = Walker()
        mask = case.get("flip", 0)
        for n in nodes:
            chain = []
            cur = n
            while cur is not None:
                chain.append(cur)
                cur = cur.parent
            abspath = sep + sep.join(rr.attr(x, pathattr) for x in reversed(chain))
            if ic:
                abspath = flip_case(abspath, mask) if sep.swapcase() == sep else abspath
            for m in nodes:
                if rr.root_of(m) is not rr.root_of(n):
                    continue  # different trees after a detach: no path between them
                up, _, down = walker.walk(m, n)
                rel = sep.join([".."] * len(up) + [rr.attr(x, pathattr) for x in down])
                if ic and sep.swapcase() == sep:
                    rel = flip_case(rel, mask >> 3)
                for path in (abspath, rel):
                    exp = check_path(case, nodes, labels, m, path, acc)
                    if exp[0] != "node" or exp[1] is not n:
                        raise Violation("round-trip", "path %r from node %s should denote node %s (reference says %s)" % (path, labels.label(m), labels.label(n), exp[:2]))
                    acc.tag("roundtrip_paths")
                if len(up) >= 1 and len(down) >= 1:
                    nontrivial = True
    for start, path in case.get("paths", []):
        exp = check_path(case, nodes, labels, nodes[start], path, acc)
        eff = effective(path, sep)
        acc.tag("generated_paths")
        acc.tag("generated_paths_" + (exp[1] if exp[0] == "error" else "resolved"))
        if len(eff) >= 2 and (exp[0] == "node" and exp[1] is not nodes[start] or exp[0] == "error"):
            nontrivial = True
    if forest.snapshot(nodes, labels) != before:
        raise Violation("no-mutation", "get changed the tree")
    checked = acc.tags["roundtrip_paths"] + acc.tags["generated_paths"] - checked0
    acc.evaluations += max(checked - 1, 0)  # one evaluation = one path resolved in strict and relaxed mode
    acc.nontrivial(nontrivial)


# ---------------------------------------------------------------------------
def unambiguous(name, sep):
    """The name can be glued to the separator on either side without creating a second place where the text could be split."""
    return sep not in name and (name + sep).index(sep) == len(name) and (sep + name).count(sep) == 1 and (sep + name + sep).count(sep) == 2


def name_strategy(sep, unique_pool=None):
    if len(sep) == 1:
        alphabet = "".join(ch for ch in ALPHABET if ch not in sep)
        return st.text(alphabet=alphabet, min_size=1, max_size=4).filter(lambda s: s not in (".", ".."))
    # multi-character separators: their single characters may occur in names (also at the end: 'x>' with '->'), as long as
    # every path spelled with the names still splits back into them
    alphabet = ALPHABET + "".join(ch for ch in sep if ch not in ALPHABET)
    return st.text(alphabet=alphabet, min_size=1, max_size=4).filter(lambda s: s not in (".", "..") and unambiguous(s, sep))


def uniquify(names, parents, ignorecase_unique=True):
    """Make sibling names unique (case-insensitively) by appending a counter; construction instead of rejection."""
    seen = {}
    out = []
    for idx, name in enumerate(names):
        key_parent = parents[idx]
        text = rr.name_text(name)
        bucket = seen.setdefault(key_parent, set())
        cand, k = text, 0
        while cand.lower() in bucket:
            k += 1
            cand = "%s%d" % (text, k)
        bucket.add(cand.lower())
        out.append(cand if cand != text or not isinstance(name, dict) else name)
    return out


@st.composite
def random_cases(draw):
    shape = draw(strategies.tree_shapes(max_nodes=12))
    parents = shapes.shape_to_parents(forest.to_tuple(shape))
    size = len(parents)
    sep = draw(st.sampled_from(SEPS))
    pathattr = draw(st.sampled_from(["name", "name", "id", "file.name"]))  # an attribute NAME may contain dots (imported documents)
    ic = draw(st.booleans())
    names = [draw(st.one_of(name_strategy(sep), name_strategy(sep), st.sampled_from(["...", "....", ".x", "x."]), st.integers(0, 12).map(lambda i: {"int": i}), st.sampled_from(["etc", "a", "caf\u00e9", ""]).map(lambda t: {"bytes": t}), st.tuples(st.sampled_from(["plain", "int", "str", "flag"]), st.integers(0, 2)).map(lambda t: {"enum": list(t)}), name_strategy(sep).map(lambda t: {"tag": t}), st.lists(st.integers(0, 3), max_size=2).map(lambda v: {"tup": v} if sep not in (" ", "-") else {"int": len(v)}))) for _ in range(size)]
    unique = draw(st.integers(0, 9)) < 7
    if unique:
        names = uniquify(names, parents)
    else:
        # duplicates among siblings, also names that differ only in case: 'first child whose attribute equals it' must hold
        last_sibling = {}
        for i in range(1, size):
            prev = last_sibling.get(parents[i])
            if prev is not None and not isinstance(names[prev], dict) and draw(st.booleans()):
                variant = draw(st.sampled_from(["same", "swap", "upper", "lower"]))
                base = names[prev]
                names[i] = {"same": base, "swap": base.swapcase(), "upper": base.upper(), "lower": base.lower()}[variant]
                if len(names[i]) != len(base) or names[i] in (".", ".."):
                    names[i] = base
            last_sibling[parents[i]] = i
    # whatever produced a name (tags, tuples, counters, case variants): its text must not offer the separator a second place to split
    names = [n if unambiguous(rr.name_text(n), sep) else "n%d" % i for i, n in enumerate(names)]
    links = draw(st.lists(st.integers(0, size - 1), max_size=3, unique=True)) if draw(st.integers(0, 3)) == 0 else []
    texts = [rr.name_text(n) for n in names]
    comp = st.one_of(st.sampled_from(texts), st.sampled_from(texts), st.sampled_from(texts).map(lambda s: s.swapcase()), st.sampled_from(["..", "..", ".", "", "zz", "a", "...", "...."]), name_strategy(sep))
    paths = []
    for _ in range(draw(st.integers(1, 8))):
        comps = draw(st.lists(comp, min_size=0, max_size=7))
        path = sep.join(comps)
        lead = draw(st.integers(0, 6))
        if lead == 0:
            path = sep + texts[0] + (sep + path if comps else "")
        elif lead == 1:
            path = sep + path
        elif lead == 2:
            # a first component that merely BEGINS or ENDS like the root's name (root name glued to a child name, '.', '..')
            glue = draw(st.sampled_from(texts + [".", "..", "x"]))
            first = texts[0] + glue if draw(st.booleans()) else glue + texts[0]
            path = sep + first + (sep + path if comps else "")
        if draw(st.integers(0, 5)) == 0:
            path = path + sep
        paths.append([draw(st.integers(0, size - 1)), path])
    muts = draw(strategies.tree_mutations(rename_values=st.sampled_from(texts)))
    return {"links": links, "shape": shape, "names": names, "sep": sep, "pathattr": pathattr, "ignorecase": ic, "roundtrip": unique, "flip": draw(st.integers(0, 65535)), "paths": paths, "mutations": muts, "prime_glob": draw(st.booleans()), "path_as": draw(st.sampled_from([None, None, "tagged"])), "foreign_first": draw(st.integers(0, 2)) == 0, "unreprable": draw(st.integers(0, 5)) == 0}


ENUM_COMPS = ["a", "b", "A", "..", ".", "", "zz"]


def _enum_cases(max_nodes, index, count):
    import itertools

    k = 0
    for shape in shapes.trees_upto(max_nodes):
        size = shapes.shape_size(shape)
        parents = shapes.shape_to_parents(shape)
        base_names = [["a", "b", "A"][(i + (parents[i] or 0)) % 3] for i in range(size)]
        for ic, dup in ((False, False), (True, False), (True, True), (False, True), (False, "dots"), (True, "dots")):
            # dup: siblings may be called 'a' and 'A' (equal when ignorecase): no round trip, but 'first matching child' applies
            # dots: names made of dots only that are NOT the navigation components ('...', '....') are names like any other
            if dup == "dots":
                names = uniquify([["a", "...", "....", ".a"][(i + (parents[i] or 0)) % 4] for i in range(size)], parents)
            else:
                names = ["aA"[i % 2] for i in range(size)] if dup else uniquify(base_names, parents)
            for start in range(size):
                k += 1
                if k % count != index:
                    continue
                paths = []
                for length in range(0, 4):
                    for comps in itertools.product(ENUM_COMPS if dup != "dots" else ["a", "...", "....", "..", ".", ".a", "....."], repeat=length):
                        paths.append([start, "/".join(comps)])
                        if length:
                            paths.append([start, "/" + "/".join(comps)])
                yield {"shape": forest.to_list(shape), "names": names, "sep": "/", "pathattr": "name", "ignorecase": ic, "roundtrip": start == 0 and dup != "dots", "flip": 5, "paths": paths}


def _wide_cases():
    """Nodes with many children (linear scans and any index a resolver may keep for them) on the long-lived resolvers,
    with renames and moves between the queries."""
    for width in (63, 64, 65, 130):
        for ic in (False, True):
            for pathattr in ("name", "id"):
                shape = [[] for _ in range(width)]
                shape[3] = [[]]
                names = ["top"] + ["n%d" % i for i in range(width)] + ["leaf"]
                last = "n%d" % (width - 1)
                paths = [[0, "n0"], [0, "n3"], [0, last], [0, "N3" if ic else "n3"], [0, "fresh"], [0, "zz"], [4, "../" + last], [0, "/top/n7"], [0, "n3/leaf"], [0, "fresh/leaf"], [0, "moved"], [2, "moved"]]
                mutations = [["rename", 4, "fresh"], ["rename", 1, last], ["rename", width, "n0"], ["move", 6, 2], ["rename", 6, "moved"]]
                yield {"shape": shape, "names": names, "sep": "/", "pathattr": pathattr, "ignorecase": ic, "roundtrip": False, "flip": 0, "paths": paths, "mutations": mutations}


def _dotsep_cases():
    """A class whose separator is '.': the texts '.', '..', '...' are then absolute paths with empty components (no root
    name -> ResolverError), not navigation; everything is judged by the reference interpreter."""
    import itertools

    for shape in ([[], []], [[[]], []], [[[], []]]):
        size = shapes.shape_size(forest.to_tuple(shape))
        names = ["top", "a", "b", "c"][:size]
        comps = ["", "top", "a", "b", "zz"]
        paths = []
        for start in range(size):
            paths += [[start, t] for t in (".", "..", "...", "....", "a", "a.b", ".top", ".top.a", ".top..a", "..a", "a..", ".top.", "top", ".a")]
            paths += [[start, ".".join(p)] for p in itertools.product(comps, repeat=3)]
        for ic in (False, True):
            yield {"shape": shape, "names": names, "sep": ".", "pathattr": "name", "ignorecase": ic, "roundtrip": False, "flip": 0, "paths": paths}


def _sepname_cases():
    import itertools

    """Names that contain the separator of their own class ('usr/bin' in a '/' tree): such a node cannot be addressed - a
    path is followed component by component - and it does not disturb its neighbours."""
    k = 0
    for sep in ("/", "::", "->"):
        glued = ["usr" + sep + "bin", "usr", "bin", "a" + sep + "b" + sep + "c", "a", sep + "x", "y" + sep]
        for shape in ([[], [], []], [[[]], []], [[[], []]], [[[[]]]]):
            size = shapes.shape_size(forest.to_tuple(shape))
            parents = shapes.shape_to_parents(forest.to_tuple(shape))
            for offset in range(len(glued)):
                names = uniquify(["top"] + [glued[(offset + i) % len(glued)] for i in range(1, size)], parents)
                comps = ["usr", "bin", "a", "b", "c", "x", "y", "..", "top", ""]
                paths = []
                for start in range(size):
                    for name in names[1:]:
                        paths += [[start, name], [start, sep + "top" + sep + name], [start, ".." + sep + name], [start, name + sep + "bin"]]
                    paths += [[start, sep.join(p)] for p in itertools.product(comps[:7], repeat=2)]
                for ic in (False, True):
                    k += 1
                    yield {"shape": shape, "names": names, "sep": sep, "pathattr": "name", "ignorecase": ic, "roundtrip": False, "flip": 0, "paths": paths, "path_as": "tagged" if k % 3 == 0 else None}


def plan(tier, seed):
    nshards = 16
    examples = 200 if tier == "quick" else 1500
    max_nodes = 3 if tier == "quick" else 5
    tasks = [{"engine": "enum", "max_nodes": max_nodes, "index": i, "count": nshards} for i in range(nshards)]
    tasks += [{"engine": "hyp", "examples": examples, "seed": seed * 1000 + i} for i in range(nshards)]
    tasks += [{"engine": "long", "sep": sep, "ignorecase": ic} for sep, ic in (("/", False), ("::", True))]
    tasks += [{"engine": "mixed"}, {"engine": "sepnames"}, {"engine": "wide"}, {"engine": "dotsep"}]
    if tier == "thorough":
        # coverage-guided supplement: 16 libFuzzer campaigns on the same strategy + oracle (skipped if atheris is unavailable)
        tasks += [{"engine": "fuzz", "runs": 4000, "seed": seed * 100 + i + 1} for i in range(nshards)]
    return tasks


def run_task(task, acc):
    if task["engine"] == "fuzz":
        from ..core import run_fuzz_task

        return run_fuzz_task(PROP_ID, task, acc)
    if task["engine"] == "mixed":
        for seps in (["/", ":"], [":", "/"], ["|", "::", "/"], ["::", "-"]):
            for ic in (False, True):
                case = {"kind": "mixed", "seps": seps, "ignorecase": ic}
                exc = acc.evaluate(check_case, case, enumerated=False)
                if exc is not None:
                    acc.add_violation(case, exc)
                    return
        return
    if task["engine"] == "long":
        case = {"kind": "long", "sep": task["sep"], "ignorecase": task["ignorecase"]}
        exc = acc.evaluate(check_case, case, enumerated=False)
        if exc is not None:
            acc.add_violation(case, exc)
        return
    if task["engine"] == "wide":
        return acc.run_enum(check_case, _wide_cases())
    if task["engine"] == "dotsep":
        return acc.run_enum(check_case, _dotsep_cases())
    if task["engine"] == "sepnames":
        return acc.run_enum(check_case, _sepname_cases())
    if task["engine"] == "enum":
        acc.run_enum(check_case, _enum_cases(task["max_nodes"], task["index"], task["count"]))
    else:
        acc.run_hypothesis(check_case, random_cases(), task["examples"], task["seed"])


def evidence_extra(total, tier):
    return {"exhaustive_subdomain": "all shapes <= %d nodes x every start x both ignorecase values x all relative and absolute component sequences of length <= 3 over {a,b,A,..,.,'',zz}" % (3 if tier == "quick" else 5)}
