"""C19 - pickle and deepcopy yield an independent, consistent, isomorphic tree."""
import copy
import pickle

from hypothesis import strategies as st

from anytree import AnyNode, LightNodeMixin, Node, NodeMixin, SymlinkNode, SymlinkNodeMixin

from .. import forest, mut, nodes, refs, shapes, strategies, values
from ..core import Violation

PROP_ID = "C19"
LEVEL = "exploration"
RULE = (
    "cases = (shape, class per node from {Node, AnyNode, user NodeMixin classes (one of them with inherited __slots__ besides its __dict__), classes with own __eq__/__bool__/__len__, SymlinkNode and user SymlinkNodeMixin classes keeping target in the dictionary, a slot or behind a property} or {slotted, dict-carrying LightNodeMixin classes}, "
    "symlink targets (an earlier node of the same tree, a node of a second tree, or another link), JSON-like attribute values, entry node, "
    "method in {pickle protocol 0..5, copy.deepcopy}). Enumerated: every shape <= 5 (quick) / <= 6 (thorough) nodes x every entry node x every "
    "method x 10 class schemes; generated: trees <= 30 nodes with random class mixes, targets and attributes. Non-trivial = >= 4 nodes and "
    "(entry is not the root or the tree contains a symlink). Enumerated distinct by construction; generated hashed."
    ' Also: trees rearranged by moves before copying; a LightNodeMixin class with a plain-string __slots__; an original node moved below the copy of its former parent.'
    ' Also: links to LightNodeMixin targets, a class-level-target link class with a __setstate__ target class, _parent/_children as user data, a private slot on an underscore-named class.'
    ' Also: per-case three-level slot hierarchies in every order of first use; attribute values only copy can handle (deepcopy).'
    ' Rounds 11-14: private/weakref slots, untouched links.'
)
ASSUMPTIONS = [
    "protocols 0 and 1 are only used for classes without __slots__ (restriction of Python itself, as the statement says)",
    "tree depth stays far below the recursion limits of pickle and deepcopy (<= 30 nodes)",
    "attribute values are compared with ==; class identity with 'type(copy) is type(original)'",
]
BOOK = ("_NodeMixin__parent", "_NodeMixin__children")
LINKS = ("SymlinkNode", "PlainLink", "PropLink", "SlotLink")
NM_MIX = ["Node", "AnyNode", "PlainNM", "SymlinkNode", "EqNode", "FalsyNode", "LenNode", "SlotDictNM", "PlainLink", "PropLink", "SlotLink"]
LM_MIX = ["SlotLM", "DictLM", "StrSlotLM", "_UnderLM"]


HIERARCHY = [None]  # the three classes created for the running case (see nodes.fresh_slot_hierarchy)
LOCAL_CLASS = [None]


def make(clsname, idx, attrs, target):
    if clsname in ("H0", "H1", "H2"):
        level = int(clsname[1])
        node = HIERARCHY[0][level]("h%d" % idx)
        if level >= 1:
            node.extra = ["extra", idx, sorted(attrs.items())]
        if level >= 2:
            node.more = {"more": idx}
        if hasattr(node, "__dict__"):
            node.__dict__.update(attrs)
        return node
    if clsname == "LocalNM":
        return LOCAL_CLASS[0]("l%d" % idx, **attrs)
    if clsname == "Node":
        return Node("n%d" % idx, **attrs)
    if clsname == "AnyNode":
        return AnyNode(**attrs)
    if clsname == "PlainNM":
        return nodes.PlainNM("p%d" % idx, **attrs)
    if clsname == "DictLM":
        return nodes.DictLM("d%d" % idx, **attrs)
    if clsname == "StrSlotLM":
        return nodes.StrSlotLM(["payload", idx, sorted(attrs.items())])
    if clsname == "_UnderLM":
        return nodes._UnderLM(["private", idx, sorted(attrs.items())])
    if clsname == "SlotLM":
        node = nodes.SlotLM("s%d" % idx)
        if attrs:
            node.tag = sorted(attrs.items())
        return node
    if clsname == "SymlinkNode":
        return SymlinkNode(target)
    if clsname == "FixedLink":
        return nodes.FixedLink()
    if clsname == "StatefulNM":
        return nodes.StatefulNM("st%d" % idx)
    if clsname in LINKS:
        return nodes.make_link(clsname, target)
    if clsname == "SlotDictNM":
        return nodes.SlotDictNM("r%d" % idx, **attrs)
    if clsname in ("EqNode", "FalsyNode", "LenNode"):
        return getattr(nodes, clsname)("n%d" % idx, **attrs)
    raise ValueError(clsname)


def build_tree(spec, other_nodes):
    parents = shapes.shape_to_parents(forest.to_tuple(spec["shape"]))
    out = []
    for idx, parent in enumerate(parents):
        clsname = spec["classes"][idx]
        attrs = {k: values.decode(v) for k, v in (spec.get("attrs") or [[]] * len(parents))[idx]}
        target = None
        if clsname in LINKS:
            where, tidx = spec["targets"][idx]
            pool = other_nodes if where == "other" and other_nodes else out
            if not pool:
                clsname = "Node"
            else:
                target = pool[tidx % len(pool)]
        node = make(clsname, idx, attrs, target)
        if parent is not None:
            node.parent = out[parent]
        out.append(node)
    return out


def state_of(node):
    """Own state of a node (not forwarded through a symlink)."""
    if isinstance(node, SymlinkNodeMixin):
        return [(k, v) for k, v in vars(node).items() if not (k in BOOK or k.startswith("_NodeMixin__") or k == "target" or k == "_ref")]
    if isinstance(node, nodes.SlotLM):
        return [("name", node.name), ("tag", getattr(node, "tag", None))]
    if isinstance(node, nodes.StrSlotLM):
        return [("payload", getattr(node, "payload", "<payload missing>"))]
    if isinstance(node, nodes._UnderLM):
        return [("private payload", getattr(node, "_UnderLM__payload", "<payload missing>"))]
    if hasattr(type(node), "_vf_hierarchy"):
        return nodes.own_slots(node) + sorted((k, v) for k, v in getattr(node, "__dict__", {}).items() if not (k in BOOK or k.startswith("_NodeMixin__")))
    slots = [("slot:" + k, getattr(node, k, "<unset>")) for k in nodes.Record.__slots__] if isinstance(node, nodes.Record) else []
    return slots + sorted((k, v) for k, v in vars(node).items() if not (k in BOOK or k.startswith("_NodeMixin__") or k.startswith("_LightNodeMixin__")))


def root_of(node):
    while node.parent is not None:
        node = node.parent
    return node


def pair_trees(orig_root, copy_root, mapping, pending, ctx):
    stack = [(orig_root, copy_root, "root")]
    while stack:
        o, c, path = stack.pop()
        if type(c) is not type(o):
            raise Violation("class", "%s: %s is %s, original %s" % (ctx, path, type(c).__name__, type(o).__name__))
        if id(o) in mapping:
            if mapping[id(o)] is not c:
                raise Violation("sharing", "%s: %s maps to two different copies" % (ctx, path))
            continue
        mapping[id(o)] = c
        ok, ck = o.children, c.children
        if len(ok) != len(ck):
            raise Violation("shape", "%s: %s has %d children, original %d" % (ctx, path, len(ck), len(ok)))
        so, sc = state_of(o), state_of(c)
        if [k for k, _ in so] != [k for k, _ in sc] or any(not (a == b) for (_, a), (_, b) in zip(so, sc)):
            raise Violation("attributes", "%s: %s has attributes %r, original %r" % (ctx, path, sc, so))
        if isinstance(o, SymlinkNodeMixin):
            pending.append((o, c, path))
        for i, (x, y) in enumerate(zip(ok, ck)):
            if y.parent is not c:
                raise Violation("consistency", "%s: %s.%d parent link wrong in the copy" % (ctx, path, i))
            stack.append((x, y, "%s.%d" % (path, i)))


def check_copy(entry, result, all_original, ctx):
    mapping = {}
    pending = []
    pair_trees(root_of(entry), root_of(result), mapping, pending, ctx)
    if mapping.get(id(entry)) is not result:
        raise Violation("position", "%s: the result does not occupy the entry node's position in the copied tree" % ctx)
    while pending:
        o, c, path = pending.pop()
        ot = o.target
        ct = c.target
        if id(ot) not in mapping:
            pair_trees(root_of(ot), root_of(ct), mapping, pending, ctx)
        if mapping.get(id(ot)) is not ct:
            raise Violation("symlink-target", "%s: target of link %s is not the copy of the original target" % (ctx, path))
    copies = list(mapping.values())
    orig_ids = {id(n) for n in all_original}
    if any(id(c) in orig_ids for c in copies):
        raise Violation("independence", "%s: the copy shares a node object with the original" % ctx)
    labels = forest.Labels(copies)
    problem = mut.consistency_problem(copies, labels)
    if problem:
        raise Violation("consistency", "%s: %s" % (ctx, problem))
    return mapping


def full_state(all_nodes):
    labels = forest.Labels(all_nodes)
    return [(labels.label(n.parent), labels.labels(n.children), repr(state_of(n))) for n in all_nodes]


def check_fresh_link(case, acc):
    """Links that are copied before anything ever looked at them: a free-standing link (never had a parent or children, no
    attribute of it was read), and a link whose target is such a link. Reading .children on a node creates bookkeeping as a
    side effect - and so hides what happens to nodes that have none yet."""
    target = Node("t")
    Node("t-child", parent=target)
    kind = case["link"]
    inner = SymlinkNode(target) if kind == "SymlinkNode" else nodes.make_link(kind, target)
    entry = SymlinkNode(inner) if case["outer"] else inner
    method = case["method"]
    result = copy.deepcopy(entry) if method == "deepcopy" else pickle.loads(pickle.dumps(entry, int(method[1:])))
    ctx = "%s of an untouched %s%s" % (method, "link to an untouched " if case["outer"] else "", kind)
    if type(result) is not type(entry) or result is entry:
        raise Violation("class", "%s: result is %s" % (ctx, type(result).__name__))
    inner_copy = result.target if case["outer"] else result
    if type(inner_copy) is not type(inner) or inner_copy is inner:
        raise Violation("symlink-target", "%s: the copied link's target is not a copy of the inner link" % ctx)
    t_copy = inner_copy.target
    if t_copy is target or type(t_copy) is not Node or t_copy.name != "t" or [c.name for c in t_copy.children] != ["t-child"] or t_copy.children[0] is target.children[0]:
        raise Violation("symlink-target", "%s: the target of the copy is not an independent copy of the original target's tree" % ctx)
    for node in (result, inner_copy):
        if node.parent is not None or node.children != ():
            raise Violation("shape", "%s: a copied free-standing link has parent %r / children %r" % (ctx, node.parent, node.children))
    fresh = Node("fresh", parent=inner_copy)
    if inner_copy.children != (fresh,) or inner.children != () or target.children[0].name != "t-child":
        raise Violation("independence", "%s: attaching below the copy does not work or shows on the original" % ctx)
    acc.nontrivial(True)
    acc.tag("links_copied_before_anything_looked_at_them")


def check_case(case, acc):
    if case.get("kind") == "fresh-link":
        return check_fresh_link(case, acc)
    HIERARCHY[0] = nodes.fresh_slot_hierarchy({"LM": LightNodeMixin, "NM": NodeMixin}[case["hierarchy"]]) if case.get("hierarchy") else None
    LOCAL_CLASS[0] = nodes.local_node_class()
    try:
        return _check_case(case, acc)
    finally:
        nodes.release_hierarchy(HIERARCHY[0])
        HIERARCHY[0] = None


def _check_case(case, acc):
    other = build_tree(case["other"], []) if case.get("other") else []
    tree = build_tree(case["tree"], other)
    if case.get("unpicklable"):
        # callbacks and application objects that copy handles and pickle does not (deepcopy only)
        for idx, node in enumerate(tree):
            if hasattr(node, "__dict__") and not isinstance(node, SymlinkNodeMixin) and idx % case["unpicklable"] == 0:
                node.callback, node.local = nodes.local_value(idx)
    alive = []
    if case.get("hierarchy") == "LM" and case.get("weakrefs"):
        import weakref

        alive = [weakref.ref(node) for node in tree]  # live weak references to the nodes while they are copied
    if case.get("warm") is not None:
        # the first node of the hierarchy whose state is ever taken is a lone instance of one of the three classes
        lone = HIERARCHY[0][case["warm"]]("lone")
        copy.deepcopy(lone)
        pickle.dumps(lone, 2)
    for op in case.get("premut", []):
        # the tree has a past: nodes were moved around before it is copied (some inner nodes lost all their children again)
        if op[0] == "move":
            # only moves that are legal (a refusal would format its message with reprs that need a 'name' on every node)
            cur = tree[op[2] % len(tree)]
            while cur is not None and cur is not tree[op[1] % len(tree)]:
                cur = cur.parent
            if cur is not None:
                continue
        if op[0] in ("move", "reverse"):
            refs.mutate_tree(tree, op)
    everything = tree + other
    entry = tree[case["entry"]]
    method = case["method"]
    ctx = "%s entry=%d classes=%s shape=%s" % (method, case["entry"], case["tree"]["classes"], case["tree"]["shape"])
    before = full_state(everything)
    if method == "deepcopy":
        result = copy.deepcopy(entry)
    else:
        proto = int(method[1:])
        result = pickle.loads(pickle.dumps(entry, proto))
    if full_state(everything) != before:
        raise Violation("original-modified", "%s: copying modified the original" % ctx)
    mapping = check_copy(entry, result, everything, ctx)
    copies = [mapping[id(n)] for n in everything if id(n) in mapping]
    # mutating the copy does not affect the original
    snap_copy = full_state(copies)
    victim = mapping[id(tree[-1])]
    victim.parent = None
    first = mapping[id(tree[0])]
    if not isinstance(first, (SymlinkNodeMixin, nodes.SlotLM, nodes.StrSlotLM, nodes._UnderLM)) and hasattr(first, "__dict__"):
        first.extra_attribute = "changed"
    else:
        del first.children
    # a fresh node attached below one copied leaf shows up there and nowhere else
    for leaf in [c for c in copies if not c.children]:
        fresh = nodes.SlotLM("fresh") if isinstance(leaf, LightNodeMixin) else Node("fresh")
        fresh.parent = leaf
        problem = mut.consistency_problem(copies + [fresh], forest.Labels(copies + [fresh]))
        if problem:
            raise Violation("consistency", "%s: after attaching a new node below a copied leaf: %s" % (ctx, problem))
        holders = [c for c in copies if any(k is fresh for k in c.children)]
        if len(holders) != 1 or holders[0] is not leaf:
            raise Violation("independence", "%s: a node attached below one childless node of the copy is listed by %d nodes of the copy" % (ctx, len(holders)))
        fresh.parent = None
        if leaf.children:
            raise Violation("consistency", "%s: a childless node of the copy keeps a child after it was detached again" % ctx)
    if full_state(everything) != before:
        raise Violation("independence", "%s: mutating the copy changed the original" % ctx)
    # and the other way round (compare the copy with its state after the first mutation)
    snap_copy = full_state(copies)
    tree[-1].parent = None
    if len(tree) > 2:
        tree[1].children = []
    if not isinstance(tree[0], (SymlinkNodeMixin, nodes.SlotLM, nodes.StrSlotLM, nodes._UnderLM)) and hasattr(tree[0], "__dict__"):
        tree[0].extra_attribute = "changed too"
    if full_state(copies) != snap_copy:
        raise Violation("independence", "%s: mutating the original changed the copy" % ctx)
    # the two trees can exchange nodes like any two trees: an ORIGINAL node moved below the copy of its former parent
    # becomes that node's last child, next to its own copy
    mover = next((n for n in reversed(tree) if n.parent is not None and id(n) in mapping and id(n.parent) in mapping), None)
    if mover is not None:
        host = mapping[id(mover.parent)]
        expected = list(host.children) + [mover]
        old_parent = mover.parent
        old_siblings = [c for c in old_parent.children if c is not mover]
        mover.parent = host
        if len(host.children) != len(expected) or any(a is not b for a, b in zip(host.children, expected)):
            raise Violation("independence", "%s: after moving an original node below the copy of its former parent, that copy has %d children instead of %d" % (ctx, len(host.children), len(expected)))
        if any(a is not b for a, b in zip(old_parent.children, old_siblings)) or len(old_parent.children) != len(old_siblings):
            raise Violation("independence", "%s: the original parent did not release the moved node correctly" % ctx)
        pool = copies + [mover] + list(mover.descendants)
        problem = mut.consistency_problem(pool, forest.Labels(pool))
        if problem:
            raise Violation("consistency", "%s: after moving an original node into the copied tree: %s" % (ctx, problem))
        acc.tag("original_node_moved_into_the_copy")
    has_link = any(c in LINKS for c in case["tree"]["classes"])
    acc.nontrivial(len(tree) >= 4 and (case["entry"] != 0 or has_link))
    acc.tag("method:" + method)
    acc.tag("with_symlink", has_link)
    acc.tag("cross_tree_target", has_link and bool(other) and any(t and t[0] == "other" for t in case["tree"].get("targets", [])))
    acc.tag("entry_not_root", case["entry"] != 0)
    acc.tag("tree_rearranged_before_copying", bool(case.get("premut")))
    acc.tag("class_hierarchy_adding_slots_per_level", bool(case.get("hierarchy")))
    acc.tag("weakly_referenced_slotted_nodes", bool(alive) and all(r() is not None for r in alive))
    acc.tag("attribute_values_only_copy_can_handle", bool(case.get("unpicklable")))


NM_METHODS = ["p0", "p1", "p2", "p3", "p4", "p5", "deepcopy"]
LM_METHODS = ["p2", "p3", "p4", "p5", "deepcopy"]
SCHEMES = [
    ("nm-nodes", ["Node"], NM_METHODS),
    ("nm-mix", ["Node", "AnyNode", "PlainNM"], NM_METHODS),
    ("nm-links", ["Node", "SymlinkNode", "AnyNode", "SymlinkNode"], NM_METHODS),
    ("nm-special", ["FalsyNode", "EqNode", "LenNode", "FalsyNode"], NM_METHODS),
    ("nm-slotdict", ["SlotDictNM", "Node", "SlotDictNM"], NM_METHODS[2:]),
    ("nm-userlinks", ["Node", "PropLink", "SlotLink", "PlainLink"], NM_METHODS[2:]),
    ("nm-links-lm", ["Node", "SymlinkNode", "AnyNode", "SymlinkNode"], NM_METHODS[2:]),
    ("nm-fixedlink", ["StatefulNM", "FixedLink", "Node", "FixedLink"], NM_METHODS),
    ("lm-slots", ["SlotLM"], LM_METHODS),
    ("lm-mix", ["DictLM", "SlotLM", "StrSlotLM", "_UnderLM"], LM_METHODS),
]
SAMPLE_ATTRS = [[["a", {"t": "int", "v": 1}], ["_parent", {"t": "str", "v": "data, not a link"}], ["b", {"t": "list", "v": [{"t": "str", "v": "x"}]}]], [["_children", {"t": "int", "v": 7}]], [["c", {"t": "dict", "v": [["k", {"t": "none"}]]}]]]


def _enum_cases(max_nodes, index, count):
    k = 0
    for shape in shapes.trees_upto(max_nodes):
        size = shapes.shape_size(shape)
        for scheme, classes, methods in SCHEMES:
            k += 1
            if k % count != index:
                continue
            cls = [classes[(i + k) % len(classes)] if i else classes[0] for i in range(size)]
            targets = [["other" if (i + k) % 3 == 0 else "same", i // 2] for i in range(size)]
            spec = {"shape": forest.to_list(shape), "classes": cls, "targets": targets, "attrs": [SAMPLE_ATTRS[(i + k) % 3] for i in range(size)]}
            other = {"shape": [[], [[]]], "classes": ["Node", "AnyNode", "SymlinkNode", "Node"], "targets": [None, None, ["same", 0], None]} if scheme in ("nm-links", "nm-userlinks") else None
            if scheme == "nm-links-lm":
                # links whose targets are LightNodeMixin nodes (necessarily of another tree)
                other = {"shape": [[], [[]]], "classes": ["SlotLM", "DictLM", "SlotLM", "StrSlotLM"], "targets": [None] * 4}
                spec = dict(spec, targets=[["other", i] for i in range(size)])
            for entry in range(size):
                for method in methods:
                    case = {"tree": spec, "entry": entry, "method": method}
                    if (k + entry) % 3 == 0 and size >= 3:
                        # two moves that leave two inner nodes without children before the tree is copied
                        case["premut"] = [["move", size - 1, size - 2], ["move", size - 1, 0], ["move", size - 2, size - 1]]
                    if other:
                        case["other"] = other
                    yield case


def _hierarchy_cases(max_nodes):
    """Fresh three-level slot hierarchies (per case): every shape, level pattern, entry, method, and which class is used first."""
    k = 0
    for shape in shapes.trees_upto(max_nodes):
        size = shapes.shape_size(shape)
        if size < 2:
            continue
        for mixin, methods in (("LM", LM_METHODS), ("NM", NM_METHODS[2:])):
            for pattern in ([0, 1, 2], [0, 2, 1], [2, 0, 1], [1, 1, 0], [0, 0, 2]):
                cls = ["H%d" % pattern[i % 3] for i in range(size)]
                spec = {"shape": forest.to_list(shape), "classes": cls, "targets": [None] * size, "attrs": [SAMPLE_ATTRS[i % 3] if mixin == "NM" else [] for i in range(size)]}
                for entry in range(size):
                    for warm in (None, 0, 2):
                        k += 1
                        yield {"tree": spec, "entry": entry, "method": methods[k % len(methods)], "hierarchy": mixin, "warm": warm, "weakrefs": k % 2 == 0}


def _unpicklable_cases(max_nodes):
    k = 0
    for shape in shapes.trees_upto(max_nodes):
        size = shapes.shape_size(shape)
        for classes in (["Node"], ["AnyNode", "LocalNM"], ["LocalNM", "Node", "SymlinkNode"], ["PlainNM", "SlotDictNM", "LocalNM"]):
            cls = [classes[i % len(classes)] for i in range(size)]
            spec = {"shape": forest.to_list(shape), "classes": cls, "targets": [["same", i // 2] for i in range(size)], "attrs": [SAMPLE_ATTRS[i % 3] for i in range(size)]}
            for entry in range(size):
                k += 1
                yield {"tree": spec, "entry": entry, "method": "deepcopy", "unpicklable": 1 + k % 3}


ATTR_KEY = st.one_of(st.text(alphabet="abcdxyz_", min_size=1, max_size=3), st.sampled_from(["_parent", "_children", "_NodeMixin", "parents", "_c"])).filter(lambda k: k not in ("name", "tag"))


@st.composite
def tree_spec(draw, mix, max_nodes, allow_other):
    shape = draw(strategies.tree_shapes(max_nodes=max_nodes))
    size = shapes.shape_size(forest.to_tuple(shape))
    classes = [draw(st.sampled_from(mix)) for _ in range(size)]
    if classes[0] in LINKS and not allow_other:
        classes[0] = "Node"
    targets = [[draw(st.sampled_from(["same", "other"] if allow_other else ["same"])), draw(st.integers(0, 30))] for _ in range(size)]
    attrs = [draw(st.lists(st.tuples(ATTR_KEY, values.json_value).map(list), max_size=3, unique_by=lambda kv: kv[0])) for _ in range(size)]
    return {"shape": shape, "classes": classes, "targets": targets, "attrs": attrs}


@st.composite
def random_cases(draw):
    lm = draw(st.integers(0, 3)) == 0
    mix = LM_MIX if lm else draw(st.sampled_from([NM_MIX, NM_MIX, ["Node", "SymlinkNode"], ["AnyNode", "PlainNM"]]))
    case = {}
    has_other = not lm and draw(st.booleans())
    if has_other:
        case["other"] = draw(tree_spec(mix, 6, False))
    case["tree"] = draw(tree_spec(mix, 30, has_other))
    if case["tree"]["classes"][0] in LINKS and not has_other:
        case["tree"]["classes"][0] = "Node"
    size = len(case["tree"]["classes"])
    case["entry"] = draw(st.one_of(st.just(0), st.integers(0, size - 1)))
    slotted = lm or any(c in ("SlotDictNM", "SlotLink") for spec in (case["tree"], case.get("other") or {"classes": []}) for c in spec["classes"])
    case["method"] = draw(st.sampled_from(LM_METHODS if slotted else NM_METHODS))
    case["premut"] = draw(st.lists(strategies.tree_mutation_op(), max_size=4))
    return case


def plan(tier, seed):
    nshards = 16
    max_nodes = 5 if tier == "quick" else 6
    examples = 150 if tier == "quick" else 1200
    tasks = [{"engine": "enum", "max_nodes": max_nodes, "index": i, "count": nshards} for i in range(nshards)]
    tasks += [{"engine": "hyp", "examples": examples, "seed": seed * 1000 + i} for i in range(nshards)]
    tasks += [{"engine": "fresh-link"}]
    tasks += [{"engine": "hierarchy", "max_nodes": 4 if tier == "quick" else 5}, {"engine": "unpicklable", "max_nodes": 5 if tier == "quick" else 6}]
    return tasks


def run_task(task, acc):
    if task["engine"] == "fresh-link":
        return acc.run_enum(check_case, ({"kind": "fresh-link", "link": link, "outer": outer, "method": method} for link in LINKS for outer in (False, True) for method in (NM_METHODS if link in ("SymlinkNode", "PlainLink", "PropLink") else NM_METHODS[2:])))
    if task["engine"] == "hierarchy":
        return acc.run_enum(check_case, _hierarchy_cases(task["max_nodes"]))
    if task["engine"] == "unpicklable":
        return acc.run_enum(check_case, _unpicklable_cases(task["max_nodes"]))
    if task["engine"] == "enum":
        acc.run_enum(check_case, _enum_cases(task["max_nodes"], task["index"], task["count"]))
    else:
        acc.run_hypothesis(check_case, random_cases(), task["examples"], task["seed"])


def evidence_extra(total, tier):
    return {"exhaustive_subdomain": "every shape <= %d nodes x 10 class schemes x every entry node x every applicable pickle protocol and deepcopy" % (5 if tier == "quick" else 6)}
