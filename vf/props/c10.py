"""C10 - dictionary export and import are faithful inverses of each other."""
import collections

from hypothesis import strategies as st

from anytree import AnyNode, Node, NodeMixin
from anytree.exporter import DictExporter
from anytree.importer import DictImporter

from .. import forest, refs, shapes, strategies, values
from ..core import Violation

PROP_ID = "C10"
LEVEL = "exploration"
RULE = (
    "cases = (tree <= 25 nodes of AnyNode / Node / a user NodeMixin class, per node 0-5 attributes with arbitrary text keys (incl. "
    "non-identifiers and underscore-prefixed) and arbitrary Python values (None, bools, numbers, text, bytes, tuples, sets, nested "
    "containers, shared opaque objects), start node, attriter in {None, sorted, key filter}, childiter in {list, reversed, filter}, "
    "dictcls in {dict, OrderedDict, dict subclass}, maxlevel in {None, 0..height+2}); a second generator produces nested dictionaries "
    "with optional empty 'children' lists for export(import_(d)). All shapes <= 5 nodes x start x maxlevel x the 27 option combinations "
    "are enumerated with a fixed attribute pattern. Non-trivial = tree of height >= 2 with an inner node carrying >= 2 attributes and "
    "at least one non-default option (or, for dictionary cases, a nested dictionary with >= 3 nodes and an empty 'children' list)."
    ' Also: user keys that look like private mixin names, positional constructor arguments, memoising childiter, auto-vivifying dictionaries, re-entrant and aborted exports.'
    ' Also: maxlevels that are not whole numbers (literal reading).'
    ' Rounds 11-14: ready-made attriter mappings, aliased documents, lazy filtering childiters, attribute order, scarred trees.'
)
ASSUMPTIONS = [
    "reference serialiser reads vars(node) minus the two bookkeeping keys and applies attriter/childiter/dictcls/maxlevel itself",
    "attribute keys never equal 'parent', 'children' or a constructor parameter name of the node class ('self'; 'name' is the required argument of Node)",
    "'not modified' is judged on public state (attributes minus bookkeeping, plus structure): reading .children lazily creates the bookkeeping list",
    "attribute order in the exported mapping follows attriter (that is what sorting attriters are for); 'children' comes last",
]
BOOK = ("_NodeMixin__parent", "_NodeMixin__children")


class AttrNM(NodeMixin):
    """User class: arbitrary attributes, no required ones."""

    def __init__(self, parent=None, **kwargs):
        self.__dict__.update(kwargs)
        self.parent = parent


class MyDict(dict):
    pass


class LenAnyNode(AnyNode):
    """Container-like node class: falsy while it has no children."""

    def __len__(self):
        return len(self.children)


class EqAnyNode(AnyNode):
    def __eq__(self, other):
        return isinstance(other, EqAnyNode)

    def __hash__(self):
        return 3

    def __bool__(self):
        return False


class ExportBoom(Exception):
    """Raised by a user callback (attriter/childiter) in the middle of an export."""


DICTCLS = {"dict": dict, "OrderedDict": collections.OrderedDict, "MyDict": MyDict}
NODECLS = {"VetoAny": None, "AnyNode": AnyNode, "Node": Node, "AttrNM": AttrNM, "LenAnyNode": LenAnyNode, "EqAnyNode": EqAnyNode}


def attriter_of(name, dictcls=dict):
    if name is None:
        return None
    if name in ("dictmemo", "dictconst"):
        # an attriter may hand back a ready-made mapping - also one of exactly the exporter's dictcls, and the SAME object
        # for several nodes (a memoising attriter; a constant one for shape-only exports): it stays the callback's own
        memo = {}

        def ready_made(items):
            pairs = [(k, v) for k, v in items if (k == "name" if name == "dictconst" else not k.startswith("_"))]  # dictconst: shape (and name) only
            key = tuple((k, id(v)) for k, v in pairs)
            if key not in memo:
                memo[key] = dictcls(pairs)
            return memo[key]

        ready_made.memo = memo
        return ready_made
    if name == "sorted":
        return lambda items: sorted(items, key=lambda kv: kv[0])
    if name == "keyfilter":
        return lambda items: [(k, v) for k, v in items if not k.startswith("_")]
    if name == "genfilter":  # an attriter may hand back a generator
        return lambda items: ((k, v) for k, v in items if k != "b")
    raise ValueError(name)


def childiter_of(name):
    if name == "list":
        return list
    if name == "reversed":
        return lambda kids: list(reversed(kids))
    if name == "filter":
        return lambda kids: [k for i, k in enumerate(kids) if i % 2 == 0]
    if name == "iter":  # an always-truthy, one-shot iterator (like the built-in reversed)
        return lambda kids: iter(list(kids))
    if name == "revgen":
        return lambda kids: (k for k in reversed(list(kids)))
    if name == "memolist":  # a pure function that hands back the SAME list object whenever it is asked about the same children again
        memo = {}
        return lambda kids: memo.setdefault(tuple(id(k) for k in kids), list(kids))
    if name == "lazyodd":  # a generator (always truthy) that keeps every second child only: an only child disappears
        return lambda kids: (k for i, k in enumerate(kids) if i % 2 == 1)
    if name == "filterobj":  # a filter object (always truthy) that keeps inner nodes only: a parent of leaves keeps none
        return lambda kids: filter(lambda k: len(k.children) > 0, kids)
    if name == "tail":  # drops the first child: an only child disappears, its parent is exported without 'children'
        return lambda kids: list(kids)[1:]
    raise ValueError(name)


VETO = [False]


class VetoAny(AnyNode):
    """An AnyNode subclass whose attach hook can be made to refuse for a while (a tree that is frozen temporarily)."""

    def _pre_attach(self, parent):
        if VETO[0]:
            raise ExportBoom("attaching is refused at the moment")


NODECLS["VetoAny"] = VetoAny


def scar(nodes, index):
    """A tree with a past: one children assignment was refused, putting the old children back was refused as well (the hook
    kept refusing), and the application then repaired the tree by hand. Nothing of that is data of the nodes."""
    node = nodes[index % len(nodes)]
    kids = list(node.children)
    if not kids:
        return False
    VETO[0] = True
    try:
        node.children = list(reversed(kids))
    except ExportBoom:
        pass
    finally:
        VETO[0] = False
    for kid in kids:
        kid.parent = None
    node.children = kids
    return True


def build(case):
    cls = NODECLS[case["cls"]]
    parents = shapes.shape_to_parents(forest.to_tuple(case["shape"]))
    nodes = []
    for idx, parent in enumerate(parents):
        attrs = {k: values.decode(v) for k, v in case["attrs"][idx]}
        if case["cls"] == "Node":
            attrs.setdefault("name", "n%d" % idx)
        node = cls(**attrs)
        if parent is not None:
            node.parent = nodes[parent]
        nodes.append(node)
    if case["cls"] == "VetoAny":
        for index in {0, case.get("start", 0), case.get("scar", 0)}:
            scar(nodes, index)
    return nodes


USER_KEYS = set()  # keys that the current case itself assigns although they look like the mixins' private names


def is_bookkeeping(key):
    """Tree bookkeeping = the mixins' own private (name-mangled) attributes, whatever they are called - but not data
    the user put there under such a name (a user class that is itself called NodeMixin and has private attributes)."""
    if key in USER_KEYS:
        return False
    return key in BOOK or key.startswith("_NodeMixin__") or key.startswith("_LightNodeMixin__")


def _collect_user_keys(case):
    USER_KEYS.clear()

    def note(attrs):
        for key, _ in attrs:
            if (key.startswith("_NodeMixin__") or key.startswith("_LightNodeMixin__")) and key not in BOOK:
                USER_KEYS.add(key)

    def walk(spec):
        note(spec["attrs"])
        for child in spec.get("children") or []:
            walk(child)

    if case.get("kind") == "dict":
        walk(case["data"])
    else:
        for attrs in case["attrs"]:
            note(attrs)


def public(node):
    return [(k, v) for k, v in vars(node).items() if not is_bookkeeping(k)]


def ref_export(node, attriter, childiter, dictcls, maxlevel, depth=0):
    items = public(node)
    if attriter is not None:
        items = attriter(items)
    data = dictcls(items)
    if maxlevel is None or depth + 1 < maxlevel:
        kids = [ref_export(c, attriter, childiter, dictcls, maxlevel, depth + 1) for c in childiter(node.children)]
        if kids:
            data["children"] = kids
    return data


def same_export(got, exp, dictcls, path="root"):
    if type(got) is not dictcls:
        raise Violation("dictcls", "%s: exported mapping is %s, expected %s" % (path, type(got).__name__, dictcls.__name__))
    if list(got.keys()) != list(exp.keys()):
        raise Violation("keys", "%s: keys %r expected %r" % (path, list(got.keys()), list(exp.keys())))
    for key in exp:
        if key == "children":
            continue
        if not (got[key] is exp[key] or got[key] == exp[key]):
            raise Violation("value", "%s: attribute %r is %r expected %r" % (path, key, got[key], exp[key]))
    if "children" in exp:
        if not isinstance(got["children"], list) or len(got["children"]) != len(exp["children"]):
            raise Violation("children", "%s: children list differs" % path)
        for i, (g, e) in enumerate(zip(got["children"], exp["children"])):
            same_export(g, e, dictcls, "%s.%d" % (path, i))


def tree_state(nodes):
    labels = forest.Labels(nodes)
    return [(labels.label(n.parent), labels.labels(n.children), [(k, id(v)) for k, v in public(n)]) for n in nodes]


def structural_copy(d):
    """Order-preserving picture of a nested dictionary: key order and the identity of the values are part of it."""
    if isinstance(d, dict):
        return [(k, structural_copy(v) if k == "children" else ("value", id(v))) for k, v in d.items()]
    if isinstance(d, list):
        return [structural_copy(x) for x in d]
    return ("value", id(d))


def isomorphic(node, data, nodecls, path="root"):
    """Imported tree vs the dictionary it was built from."""
    if type(node) is not nodecls:
        raise Violation("nodecls", "%s: imported node is %s" % (path, type(node).__name__))
    want = [(k, v) for k, v in data.items() if k != "children"]
    have = dict(public(node))
    if sorted(have.keys()) != sorted(k for k, _ in want):
        raise Violation("import-attrs", "%s: attributes %r expected %r" % (path, sorted(have), sorted(k for k, _ in want)))
    for k, v in want:
        if not (have[k] is v or have[k] == v):
            raise Violation("import-value", "%s: attribute %r is %r expected %r" % (path, k, have[k], v))
    kids = data.get("children", [])
    if len(node.children) != len(kids):
        raise Violation("import-shape", "%s: %d children expected %d" % (path, len(node.children), len(kids)))
    for i, (c, d) in enumerate(zip(node.children, kids)):
        if c.parent is not node:
            raise Violation("import-links", "%s.%d: parent link wrong" % (path, i))
        isomorphic(c, d, nodecls, "%s.%d" % (path, i))


def strip_empty_children(d):
    out = type(d)((k, v) for k, v in d.items() if k != "children")
    kids = [strip_empty_children(c) for c in d.get("children", [])]
    if kids:
        out["children"] = kids
    return out


def to_ordered(d):
    out = collections.OrderedDict((k, v) for k, v in d.items() if k != "children")
    if "children" in d:
        out["children"] = [to_ordered(c) for c in d["children"]]
    return out


def decode_dict(spec):
    """The 'children' entry sits at position spec['pos'] among the keys (exporters put it last, hand-written data need not)."""
    items = [(k, values.decode(v)) for k, v in spec["attrs"]]
    if spec.get("children") is not None:
        pos = min(spec.get("pos", len(items)), len(items))
        items.insert(pos, ("children", [decode_dict(c) for c in spec["children"]]))
    return dict(items)


def count_nodes(spec):
    return 1 + sum(count_nodes(c) for c in spec.get("children") or [])


def has_empty_children(spec):
    kids = spec.get("children")
    return kids == [] or any(has_empty_children(c) for c in kids or [])


def check_case(case, acc):
    _collect_user_keys(case)
    if case.get("kind") == "dict":
        return check_dict_case(case, acc)
    nodes = build(case)
    _tree_once(case, acc, nodes)
    for op in case.get("mutations", []):
        refs.mutate_tree(nodes, op)
        _tree_once(case, acc, nodes)
        acc.tag("rechecked_after_mutation")


def _tree_once(case, acc, nodes):
    start = nodes[case["start"]]
    dictcls = DICTCLS[case["dictcls"]]
    attriter = attriter_of(case["attriter"], dictcls)
    childiter = childiter_of(case["childiter"])
    maxlevel = case["maxlevel"]
    before = tree_state(nodes)
    kwargs = {}
    if case["attriter"] is not None:
        kwargs["attriter"] = attriter
    if case["childiter"] != "list":
        kwargs["childiter"] = childiter
    if case["dictcls"] != "dict":
        kwargs["dictcls"] = dictcls
    if maxlevel is not None:
        kwargs["maxlevel"] = maxlevel
    exporter = DictExporter(**kwargs)
    got = exporter.export(start)
    exp = ref_export(start, attriter, childiter, dictcls, maxlevel)
    same_export(got, exp, dictcls)
    if exporter.export(start) != got:
        raise Violation("export-repeatable", "second export differs")
    for own in getattr(attriter, "memo", {}).values():
        if "children" in own or any(is_bookkeeping(k) for k in own):
            raise Violation("callback-data-modified", "a mapping handed over by the attriter was modified by the export: %r" % (list(own),))
    # options passed by position, in the order of the released signature (dictcls, attriter, childiter, maxlevel)
    same_export(DictExporter(dictcls, attriter, childiter, maxlevel).export(start), exp, dictcls, path="root (positional constructor arguments)")
    isomorphic(DictImporter(NODECLS[case["cls"]]).import_(got), exp, NODECLS[case["cls"]])
    # a long-lived exporter whose earlier export() calls were aborted by an exception from a user callback works as before
    trip = {"left": None}

    def tripwire(func):
        def inner(arg):
            if trip["left"] is not None:
                trip["left"] -= 1
                if trip["left"] < 0:
                    raise ExportBoom()
            return func(arg)

        return inner

    exporter2 = DictExporter(**dict(kwargs, attriter=tripwire(attriter or (lambda items: items)), childiter=tripwire(childiter)))
    for k in (case.get("abort_at", 3), 0, 2 * case.get("abort_at", 3) + 1):
        trip["left"] = k
        try:
            exporter2.export(start)
        except ExportBoom:
            acc.tag("exports_aborted_by_callback_exception")
        trip["left"] = None
        same_export(exporter2.export(start), exp, dictcls, path="root (same exporter, after an aborted export)")
    # a callback may itself use the exporter (an attriter that expands node-valued attributes inline with the same
    # exporter object): the nested export() calls must not disturb the export that is in progress
    holder = {}
    side = AnyNode(id="side")
    AnyNode(id="side-leaf", parent=AnyNode(id="side-mid", parent=side))

    def reentrant(items):
        if not holder.get("nested"):
            holder["nested"] = True
            try:
                holder["exporter"].export(side)
            finally:
                holder["nested"] = False
        return (attriter or (lambda x: x))(items)

    holder["exporter"] = DictExporter(**dict(kwargs, attriter=reentrant))
    same_export(holder["exporter"].export(start), exp, dictcls, path="root (attriter calls export() of the same exporter on another tree)")
    if tree_state(nodes) != before:
        raise Violation("export-modifies-tree", "the exported tree was modified")
    # import what was exported
    nodecls = NODECLS[case["cls"]]
    snapshot = structural_copy(got)
    root = DictImporter(nodecls=nodecls).import_(got)
    if structural_copy(got) != snapshot:
        raise Violation("import-modifies-argument", "import_ changed the dictionary it was given")
    isomorphic(root, exp, nodecls)
    if root.parent is not None:
        raise Violation("import-root", "imported root has a parent")
    # and export again with the default exporter: same data as a plain reference export of the imported tree
    again = DictExporter().export(root)
    plain = ref_export(start, attriter, childiter, dict, maxlevel)
    if again != plain:
        raise Violation("export-import-export", "export(import_(export(t))) differs from export(t)")
    height = start.height
    inner_rich = any(len(case["attrs"][i]) >= 2 for i, n in enumerate(nodes) if n.children)
    nondefault = bool(kwargs)
    acc.nontrivial(height >= 2 and inner_rich and nondefault)
    acc.tag("maxlevel_cuts", maxlevel is not None and maxlevel <= height)
    acc.tag("attriter_used", case["attriter"] is not None)
    acc.tag("childiter_nondefault", case["childiter"] != "list")
    acc.tag("dictcls_nondefault", case["dictcls"] != "dict")
    acc.tag("start_not_root", case["start"] != 0)


class AutoDict(dict):
    """A mapping with __missing__ (like collections.defaultdict(list)): merely LOOKING UP an absent key inserts it."""

    def __missing__(self, key):
        value = self[key] = []
        return value


def to_autodict(data):
    out = AutoDict()
    for key, value in data.items():
        out[key] = [to_autodict(c) for c in value] if key == "children" else value
    return out


def check_dict_case(case, acc):
    data = decode_dict(case["data"])
    nodecls = NODECLS[case["cls"]]
    # the same data as auto-vivifying dictionaries: importing must not even look up keys that are not there
    auto = to_autodict(data)
    picture = structural_copy(auto)
    auto_root = DictImporter(nodecls=nodecls).import_(auto)
    if structural_copy(auto) != picture:
        raise Violation("import-modifies-argument", "import_ changed an auto-vivifying dictionary (a key that was looked up without being there got inserted)")
    isomorphic(auto_root, data, nodecls)
    snapshot = structural_copy(data)
    root = DictImporter(nodecls=nodecls).import_(data)
    if structural_copy(data) != snapshot:
        raise Violation("import-modifies-argument", "import_ changed the dictionary it was given")
    isomorphic(root, data, nodecls)
    back = DictExporter().export(root)
    want = strip_empty_children(data)
    if back != want:
        raise Violation("import-export", "export(import_(d)) = %r, expected %r" % (back, want))
    if case["cls"] != "Node":
        # ... also as ordered mappings (an OrderedDict document, the JSON text): attributes come back in the document's
        # order, 'children' last (Node treats 'name' as a parameter of its own, so its position is not the document's)
        def key_order(d):
            return [k for k in d if k != "children"], [key_order(c) for c in d.get("children", [])]

        if key_order(back) != key_order(want):
            raise Violation("import-export", "export(import_(d)) lists the attributes in another order than d: %r, document %r" % (key_order(back), key_order(want)))
        ordered = DictExporter(dictcls=collections.OrderedDict).export(DictImporter(nodecls=nodecls).import_(to_ordered(data)))
        if ordered != to_ordered(want):
            raise Violation("import-export", "for an OrderedDict document d, export(import_(d)) != d (OrderedDict equality is sensitive to order)")
    # the same dictionary object (or the same children list) at several places of a document - as YAML aliases and re-used
    # template dictionaries produce it - is just repeated data: every occurrence becomes a node of its own
    def aliased(d, pool):
        out = dict(d)
        kids = [aliased(c, pool) for c in d.get("children", [])]
        if "children" in d:
            for i, kid in enumerate(kids):
                twin = next((x for x in pool if x == kid), None)
                if twin is not None:
                    kids[i] = twin
                else:
                    pool.append(kid)
            out["children"] = kids
        return out

    pool = []
    shared = aliased(data, pool)
    if case.get("twice") and "children" in shared and shared["children"]:
        shared["children"] = shared["children"] + [shared["children"][0]]  # one sub-dictionary listed twice
        data = dict(data, children=list(data["children"]) + [data["children"][0]])
    twin_root = DictImporter(nodecls=nodecls).import_(shared)
    isomorphic(twin_root, data, nodecls)
    acc.tag("documents_with_shared_subdictionaries", len(pool) < count_nodes(case["data"]) - 1 or bool(case.get("twice")))
    acc.nontrivial(count_nodes(case["data"]) >= 3 and has_empty_children(case["data"]))
    acc.tag("dict_cases")


# ---------------------------------------------------------------------------
KEY = st.one_of(
    st.text(alphabet="abcxyz_", min_size=1, max_size=4),
    st.text(alphabet="abc _-1é.", min_size=1, max_size=4),
    st.sampled_from(["nodecls", "nodecls", "data", "attrs", "level", "dictcls", "target", "target", "separator", "_ref", "node", "_hidden", "__x", "id", "a b", "1", "Name", "_NodeMixin", "child", "parents", "_NodeMixin__rev", "_NodeMixin__x", "_LightNodeMixin__rev"]),
    # names of read-only NodeMixin properties are ordinary attribute keys for export/import (they live in __dict__)
    st.sampled_from(["size", "depth", "height", "path", "root", "leaves", "is_leaf", "siblings", "descendants", "ancestors"]),
).filter(lambda k: k not in ("parent", "children", "self", "name"))


@st.composite
def attr_list(draw, cls):
    n = draw(st.integers(0, 5))
    items = draw(st.lists(st.tuples(KEY, values.any_value).map(list), min_size=0, max_size=n, unique_by=lambda kv: kv[0]))
    if cls == "Node" and draw(st.booleans()):
        items.insert(draw(st.integers(0, len(items))), ["name", draw(st.one_of(values.any_value, st.text(max_size=3).map(lambda v: {"t": "str", "v": v})))])
    return items


@st.composite
def dict_spec(draw, cls, depth=0):
    spec = {"attrs": draw(attr_list(cls))}
    if cls == "Node" and not any(k == "name" for k, _ in spec["attrs"]):
        spec["attrs"].append(["name", {"t": "str", "v": "n"}])
    kind = draw(st.integers(0, 3)) if depth < 3 else 0
    spec["pos"] = draw(st.integers(0, 5))
    if kind == 1:
        spec["children"] = []
    elif kind >= 2:
        spec["children"] = [draw(dict_spec(cls, depth + 1)) for _ in range(draw(st.integers(1, 3)))]
    return spec


@st.composite
def random_cases(draw):
    cls = draw(st.sampled_from(["AnyNode", "AnyNode", "Node", "AttrNM", "LenAnyNode", "EqAnyNode"]))
    if draw(st.integers(0, 4)) == 0:
        return {"kind": "dict", "cls": cls, "data": draw(dict_spec(cls)), "twice": draw(st.booleans())}
    shape = draw(strategies.tree_shapes(max_nodes=25))
    size = shapes.shape_size(forest.to_tuple(shape))
    return {
        "kind": "tree",
        "cls": cls,
        "shape": shape,
        "attrs": [draw(attr_list(cls)) for _ in range(size)],
        "start": draw(st.one_of(st.just(0), st.integers(0, size - 1))),
        "attriter": draw(st.sampled_from([None, "sorted", "keyfilter", "genfilter", "dictmemo", "dictconst"])),
        "childiter": draw(st.sampled_from(["list", "reversed", "filter", "tail", "iter", "revgen", "memolist", "lazyodd", "filterobj"])),
        "dictcls": draw(st.sampled_from(["dict", "OrderedDict", "MyDict"])),
        "maxlevel": draw(st.one_of(st.none(), st.integers(0, 6), st.integers(0, 6), st.sampled_from([0.5, 1.5, 2.5, 3.5, 2.0]))),
        "abort_at": draw(st.integers(0, 8)),
        "mutations": draw(strategies.tree_mutations(max_ops=2, rename_values=st.integers(0, 5))),
    }


def _enum_cases(max_nodes, index, count):
    k = 0
    pattern = [[["b", {"t": "int", "v": 1}], ["a", {"t": "str", "v": "x"}], ["_c", {"t": "none"}]], [], [["z", {"t": "tuple", "v": [{"t": "int", "v": 1}]}], ["a", {"t": "sentinel", "v": 0}]]]
    for shape in shapes.trees_upto(max_nodes):
        size = shapes.shape_size(shape)
        height = shapes.shape_height(shape)
        for start in range(size):
            k += 1
            if k % count != index:
                continue
            for maxlevel in [None] + list(range(0, height + 3)) + sorted({1.5, max(height - 0.5, 0.5)}):
                for attriter in (None, "sorted", "keyfilter", "dictmemo", "dictconst"):
                    for childiter in ("list", "reversed", "filter", "tail", "iter", "revgen", "memolist", "lazyodd", "filterobj"):
                        for dictcls in ("dict", "OrderedDict", "MyDict"):
                            yield {"kind": "tree", "cls": ["AnyNode", "Node", "AttrNM", "LenAnyNode", "EqAnyNode", "VetoAny"][k % 6], "shape": forest.to_list(shape), "attrs": [pattern[(i + k) % 3] for i in range(size)], "start": start, "attriter": attriter, "childiter": childiter, "dictcls": dictcls, "maxlevel": maxlevel}


def plan(tier, seed):
    nshards = 16
    examples = 150 if tier == "quick" else 1500
    max_nodes = 4 if tier == "quick" else 6
    tasks = [{"engine": "enum", "max_nodes": max_nodes, "index": i, "count": nshards} for i in range(nshards)]
    tasks += [{"engine": "hyp", "examples": examples, "seed": seed * 1000 + i} for i in range(nshards)]
    return tasks


def run_task(task, acc):
    if task["engine"] == "enum":
        acc.run_enum(check_case, _enum_cases(task["max_nodes"], task["index"], task["count"]))
    else:
        acc.run_hypothesis(check_case, random_cases(), task["examples"], task["seed"])


def evidence_extra(total, tier):
    return {"exhaustive_subdomain": "all shapes <= %d nodes x start x every maxlevel x 3 attriters x 6 childiters x 3 dictcls with a fixed attribute pattern" % (4 if tier == "quick" else 6)}
