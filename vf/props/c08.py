"""C08 - Resolver.glob returns exactly the nodes a wildcard pattern denotes."""
import itertools

from hypothesis import strategies as st

from anytree import Resolver, ResolverError

from .. import forest, refs, resolver_ref as rr, shapes, strategies
from ..core import Violation
from .c07 import ALPHABET, SEPS, resolver, uniquify, use_on_foreign_tree

PROP_ID = "C08"
LEVEL = "exploration"
RULE = (
    "cases = (tree <= 10 nodes with names as in C07 plus duplicate sibling names and names ending in a newline, separator, pathattr, "
    "ordered list of queries (ignorecase, start node, pattern, clear-cache flag)). The queries of one case run one after the other on "
    "the shared class-level pattern cache (cleared only at the start of the case or when a query says so), each in relaxed and strict "
    "mode, so every case is also a cache history (in a quarter of the generated cases every query is preceded by get() of the same text); generated cases contain up to 40 queries with adjacent ignorecase pairs on the same "
    "pattern, which crosses the 20-entry eviction. Pattern components come from {tree names, a name with one character replaced by '?', "
    "prefix+'*', '*'+suffix, '*', '?', '?*', '**', '..', '.', '', unknown literals, literals with regex metacharacters}. Exhaustive part: "
    "all shapes <= 4 (quick) / 5 (thorough) nodes x 3 naming schemes x every start x every relative and absolute pattern of <= 3 / <= 4 "
    "components over an 11-symbol alphabet. Non-trivial query = it contains a wildcard or '**' and denotes at least one node, or a strict "
    "dead end below the first component; distinct_nontrivial counts cases with such a query."
    ' Also: names as str subclasses with their own __str__; 4 generated shards of sibling names with special-casing characters judged by folding-independent clauses (see assumptions).'
    ' Also: foreign-separator priming, a path attribute re-entering the running resolver, trees mixing separators, all case-mapping groups of the special names.'
    ' Rounds 11-14: regex look-alikes, mutated result lists, other-case spellings (glob agrees with get; KF-C08-2 where the two pinned foldings differ).'
)
ASSUMPTIONS = [
    "reference evaluator with its own wildcard matcher (dynamic programming, no re/fnmatch); '**' = pre-order of the current node's subtree",
    "'**' as the root component of an absolute pattern is not generated (the statement is silent about it)",
    "strict-mode clauses are only checked on trees with sibling-unique names (case-insensitively unique when ignorecase)",
    "the oracle never reads Resolver._match_cache; it only varies it",
    "names with characters whose case mappings disagree or change length (sharp s, ligatures, dotless i, Kelvin sign) are judged only by what holds under any case folding: wildcard-only patterns match by length, a pattern spelled exactly like a name matches that node, case-sensitive literals match exactly, and results do not depend on the query history",
    "KF-C08-1: a strict result shorter than the relaxed one is tolerated only if the reference met a '..'-above-root dead end inside a '**' expansion below a wildcard component, and the strict list is then a subsequence of the relaxed list",
]


def subsequence(short, long_):
    it = iter(long_)
    return all(any(x is y for y in it) for x in short)


def siblings_unique(nodes, pathattr, ic):
    for node in nodes:
        seen = set()
        for child in node.children:
            key = rr.attr(child, pathattr)
            key = key.lower() if ic else key
            if key in seen:
                return False
            seen.add(key)
    return True


def run(func, *args):
    try:
        return ("ok", func(*args), None)
    except ResolverError as exc:
        return ("error", type(exc).__name__, exc)
    except Exception as exc:  # noqa: BLE001
        return ("crash", type(exc).__name__, exc)


def check_query(case, nodes, labels, preorder_index, ic, start, pattern, unique, acc, case_for_kf):
    sep, pathattr = case["sep"], case["pathattr"]
    trace = rr.GlobTrace()
    exp = rr.ref_glob(start, pattern, sep, pathattr, ic, trace)
    relaxed = run(resolver(pathattr, ic, True).glob, start, pattern)
    ctx = "glob(%s, %r) sep=%r ignorecase=%s names=%s shape=%s" % (labels.label(start), pattern, sep, ic, case["names"], case["shape"])
    if relaxed[0] != "ok":
        raise Violation("relaxed-raises", "%s relax=True raised %s: %s" % (ctx, relaxed[1], relaxed[2]))
    got = relaxed[1]
    if not isinstance(got, list):
        raise Violation("result-type", "%s returned %s" % (ctx, type(got).__name__))
    if {id(n) for n in got} != {id(n) for n in exp}:
        raise Violation("relaxed-set", "%s expected nodes %s got %s" % (ctx, sorted(set(labels.labels(exp))), labels.labels(got)))
    comps = pattern.split(sep)
    body = comps[2:] if pattern.startswith(sep) else comps
    has_star = "**" in body
    has_up = ".." in body
    if not has_star and not has_up:
        want = sorted(got, key=lambda n: preorder_index[id(n)])
        if not all(a is b for a, b in zip(got, want)) or len({id(n) for n in got}) != len(got):
            raise Violation("relaxed-order", "%s result %s is not in tree pre-order without repeats" % (ctx, labels.labels(got)))
    seen_name = up_after_name = False
    for comp in body:
        if comp == "..":
            up_after_name = up_after_name or seen_name
        elif comp not in ("", ".", "**"):
            seen_name = True
    if not up_after_name and len({id(n) for n in got}) != len(got):
        raise Violation("relaxed-duplicates", "%s result %s contains a node twice" % (ctx, labels.labels(got)))

    wild = any(rr.is_wild(c) for c in body) or (pattern.startswith(sep) and rr.is_wild(comps[1]))
    nontrivial = (wild or has_star) and bool(exp)
    if unique:
        strict = run(resolver(pathattr, ic, False).glob, start, pattern)
        if strict[0] == "crash":
            raise Violation("strict-crash", "%s strict mode raised %s: %s" % (ctx, strict[1], strict[2]))
        if strict[0] == "error":
            if not trace.dead:
                raise Violation("strict-spurious-error", "%s strict mode raised %s (%s) although no literal component, root component or '..' step is a dead end; relaxed result %s" % (ctx, strict[1], strict[2], labels.labels(got)))
            if any(kind == "child" and not bw for kind, bw, _ in trace.dead) and len(body) >= 2:
                nontrivial = True
        else:
            sgot = strict[1]
            same = len(sgot) == len(got) and all(a is b for a, b in zip(sgot, got))
            if not same:
                kf = any(kind == "up" and bw and ins for kind, bw, ins in trace.dead)
                if kf and subsequence(sgot, got):
                    acc.known_finding("KF-C08-1", case_for_kf(ic, start, pattern))
                else:
                    raise Violation("strict-differs", "%s strict mode returned %s, relaxed mode %s (dead ends %s)" % (ctx, labels.labels(sgot), labels.labels(got), trace.dead))
        if not wild and not has_star:
            # wildcard-free pattern: must agree with get
            g = run(resolver(pathattr, ic, False).get, start, pattern)
            if g[0] == "ok":
                if strict[0] != "ok" or len(strict[1]) != 1 or strict[1][0] is not g[1]:
                    raise Violation("glob-vs-get", "%s: get returns node %s, strict glob %s" % (ctx, labels.label(g[1]), strict[1] if strict[0] != "ok" else labels.labels(strict[1])))
            elif g[0] == "error":
                if strict[0] != "error" or strict[1] != g[1]:
                    raise Violation("glob-vs-get", "%s: get raises %s, strict glob %s" % (ctx, g[1], strict[1] if strict[0] != "ok" else labels.labels(strict[1])))
            rg = run(resolver(pathattr, ic, True).get, start, pattern)
            if rg[0] != "ok":
                raise Violation("relaxed-get-raises", "%s: relaxed get raised %s" % (ctx, rg[1]))
            if (rg[1] is None) != (got == []):
                raise Violation("glob-vs-get-relaxed", "%s: relaxed get -> %s, relaxed glob -> %s" % (ctx, labels.label(rg[1]), labels.labels(got)))
            if rg[1] is not None and got[0] is not rg[1]:
                raise Violation("glob-vs-get-relaxed", "%s: relaxed get and glob denote different nodes" % ctx)
    # a result belongs to the caller: whatever the caller does to the list (found += ..., sort, clear) never shows up in a
    # later result
    got.extend(nodes)
    got.reverse()
    if unique and strict[0] == "ok" and isinstance(strict[1], list):
        strict[1].append(start)
    return nontrivial, bool(exp)


# characters that mean something to the regular-expression engine but nothing in a pattern: braces that look like quantifiers,
# character-class shorthands, anchors, alternation, groups
REGEX_NAMES = ["v{2}", "vv", "v", "{1}", "a{1,2}", "aa", "a", "\\d", "7", "^a$", "(a)", "a|b", "a+", "a.b", "axb", "[ab]", "b", "...", "....", ".a"]
REGEX_PATTERNS = REGEX_NAMES + ["..?", "?...", "...*", ".....", "*{1}", "v{2}*", "?{2}", "*{1,2}", "\\d*", "?d", "^*", "(?)", "a|*", "*+", "a.?", "[*]", "[ab]*", "*/v{2}", "**/{1}", "v{2}/a"]


def _regex_cases():
    k = 0
    for shape in ([[], [], []], [[[]], []], [[[], []]], [[[[]]]]):
        size = shapes.shape_size(forest.to_tuple(shape))
        parents = shapes.shape_to_parents(forest.to_tuple(shape))
        for offset in range(0, len(REGEX_NAMES), 2):
            names = ["top"] + [REGEX_NAMES[(offset + i) % len(REGEX_NAMES)] for i in range(1, size)]
            names = uniquify(names, parents)
            for start in range(size):
                k += 1
                queries = [[(j + k) % 2 == 0, start, pat, False] for j, pat in enumerate(REGEX_PATTERNS + names[1:])]
                queries += [[q[0], q[1], "/top/" + q[2], False] for q in queries[::3]]
                yield {"shape": shape, "names": names, "sep": "/", "pathattr": "name", "queries": queries}


SPECIAL_NAMES = ["\u00df", "stra\u00dfe", "STRASSE", "strasse", "\ufb01le", "FILE", "file", "\u0131", "I", "i", "\u0130", "\u212a", "k", "K", "\u017f", "s", "\u0149", "\u01f0x", "\u0130zmir", "i\u0307zmir", "izmir", "IZMIR"]


def check_special(case, acc):
    """Names with characters whose upper()/lower()/casefold() disagree or change length (sharp s, ligatures, dotless i,
    Kelvin sign ...).  The statement does not say which case folding applies, so only what holds under ANY folding is
    judged: patterns made of wildcards alone match by length, a pattern spelled exactly like a name matches that node,
    case-sensitive literal patterns match exactly the equally named nodes, and no result depends on earlier queries."""
    cls = rr.make_class("/", "name")
    top = cls("top")
    kids = []
    for name in case["names"]:
        kid = cls(name)
        kid.parent = top
        kids.append(kid)
    labels = forest.Labels([top] + kids)
    queries = []
    for name in case["names"]:
        queries += [name, "?" * len(name), "?" * (len(name) + 1), "*", "?*", name[:1] + "*", "*" + name[-1:]]
    queries = sorted(set(queries))

    def ask(ic, pattern):
        out = run(Resolver("name", ignorecase=ic, relax=True).glob, top, pattern)
        if out[0] != "ok":
            raise Violation("relaxed-raises", "glob(top, %r) ignorecase=%s raised %s on names %r" % (pattern, ic, out[1], case["names"]))
        return out[1]

    results = {}
    orders = [queries, list(reversed(queries)), queries[::2] + queries[1::2]]
    for round_no, order in enumerate(orders):
        Resolver._match_cache.clear()
        for ic in ((False, True) if round_no != 1 else (True, False)):
            for pattern in order:
                got = ask(ic, pattern)
                key = (ic, pattern)
                if key in results and [id(n) for n in results[key]] != [id(n) for n in got]:
                    raise Violation("history-dependence", "glob(top, %r) ignorecase=%s gives %s after one query history and %s after another (names %r)" % (pattern, ic, labels.labels(results[key]), labels.labels(got), case["names"]))
                results[key] = got
    for (ic, pattern), got in results.items():
        ids = {id(n) for n in got}
        if set(pattern) <= {"?", "*"}:
            need = pattern.count("?")
            want = [k for k in kids if (len(k.name) >= need if "*" in pattern else len(k.name) == need)]
            if ids != {id(k) for k in want}:
                raise Violation("relaxed-set", "wildcard-only pattern %r ignorecase=%s matches %s, by length it must match %s (names %r)" % (pattern, ic, labels.labels(got), labels.labels(want), case["names"]))
        else:
            same = [k for k in kids if k.name == pattern]
            if not {id(k) for k in same} <= ids:
                raise Violation("relaxed-set", "pattern %r ignorecase=%s does not match the node of exactly that name (got %s, names %r)" % (pattern, ic, labels.labels(got), case["names"]))
            if not ic and not rr.is_wild(pattern) and ids != {id(k) for k in same}:
                raise Violation("relaxed-set", "case-sensitive literal pattern %r matches %s (names %r)" % (pattern, labels.labels(got), case["names"]))
    acc.evaluations += len(results) - 1
    acc.nontrivial(True)
    acc.tag("special_casing_character_cases")


def check_reentrant(case, acc):
    """The path attribute is a property that itself uses the very resolver object that is running the query (a
    shared module-level resolver): the nested call on another tree must not disturb the outer one."""
    from anytree import NodeMixin

    shared = {}
    state = {"nested": False, "inner_calls": 0}
    side_cls = rr.make_class("/", "name")
    side = side_cls("side")
    side_cls("x", parent=side_cls("p", parent=side))
    side_cls("x", parent=side_cls("q", parent=side))

    class ReNode(NodeMixin):
        separator = "/"

        def __init__(self, label, parent=None):
            self._label = label
            self.parent = parent

        @property
        def name(self):
            if not state["nested"] and case["inner"]:
                state["nested"] = True
                try:
                    state["inner_calls"] += 1
                    getattr(shared["resolver"], case["inner"])(side, case["inner_path"])
                finally:
                    state["nested"] = False
            return self._label

    plain_cls = rr.make_class("/", "name")
    results = []
    for cls in (ReNode, plain_cls):
        root = cls("root")
        kids = [cls(n, parent=root) for n in ("a", "ref", "b")]
        leaves = [cls("x", parent=k) for k in kids] + [cls("y", parent=kids[0])]
        nodes = [root] + kids + leaves
        index = {id(n): i for i, n in enumerate(nodes)}
        out = []
        for relax in (True, False):
            shared["resolver"] = Resolver("name", relax=relax)
            for start, pattern in ((0, "*/x"), (0, "**/x"), (0, "b/x"), (1, "../*/?"), (0, "/root/*/x"), (0, "*/zz"), (0, "ref/x")):
                for method in ("glob", "get"):
                    try:
                        got = getattr(shared["resolver"], method)(nodes[start], pattern)
                        out.append([index[id(n)] for n in got] if isinstance(got, list) else (None if got is None else index[id(got)]))
                    except ResolverError as exc:
                        out.append(type(exc).__name__)
        results.append(out)
    if results[0] != results[1]:
        bad = next(i for i, (a, b) in enumerate(zip(*results)) if a != b)
        raise Violation("history-dependence", "with a path attribute that uses the same resolver object for a nested %s(%r): query #%d gives %r, without nesting %r" % (case["inner"], case["inner_path"], bad, results[0][bad], results[1][bad]))
    acc.nontrivial(state["inner_calls"] > 0)
    acc.tag("reentrant_resolver_cases")


def check_mixed(case, acc):
    """Patterns on a tree that mixes node classes with different separators: the separator of the start node's class counts."""
    from .c07 import build_mixed

    nodes = build_mixed(case["seps"])
    labels = forest.Labels(nodes)
    preorder_index = {id(n): i for i, n in enumerate(rr.preorder(nodes[0]))}
    for start in nodes:
        sep = type(start).separator
        sub = {"sep": sep, "pathattr": "name", "names": ["r", "a", "b", "c", "d", "e"], "shape": "mixed"}
        for pattern in (sep + "r" + sep + "*", sep + "r" + sep + "a" + sep + "?", sep + "*" + sep + "*" + sep + "c", "..", "*", "**" + sep + "e", sep + "r" + sep + "**", sep + "r" + sep + "zz", sep + "r" + sep + "a" + sep + "c" + sep + "e"):
            check_query(sub, nodes, labels, preorder_index, case["ignorecase"], start, pattern, True, acc, lambda ic, st_, pat: dict(case, pattern=pat))
    acc.nontrivial(True)
    acc.tag("trees_mixing_separators")


FOLD_NAMES = ["\u0131l\u0131ca", "Ga\u017fthaus", "\u00b5m", "stra\u00dfe", "\u212a", "\ufb01le", "\u0130zmir", "\u0149", "plain"]


def check_fold(case, acc):
    """Wildcard-free paths under ignorecase, spelled in other cases than the names: whatever case folding the library uses,
    strict glob agrees with get (same node, same error class) - the statement says so without naming a folding.
    KF-C08-2: the pinned code folds with str.upper() in get and with re.IGNORECASE in glob; where those two foldings
    themselves differ (sharp s, ligatures, the Kelvin sign ...) get and glob disagree."""
    import re

    cls = rr.make_class("/", "name")
    top = cls("top")
    kids = []
    for name in case["names"]:
        kid = cls(name)
        kid.parent = top
        cls("pool").parent = kid
        kids.append(kid)
    labels = forest.Labels([top] + kids + [k.children[0] for k in kids])
    spellings = []
    for name in case["names"]:
        for variant in (name.upper(), name.lower(), name.swapcase(), name.title(), name.casefold()):
            if variant != name and variant not in spellings and "/" not in variant and not rr.is_wild(variant) and variant not in (".", "..", ""):
                spellings.append(variant)
    checked = 0
    for spelled in spellings:
        for path in (spelled, spelled + "/pool", "/TOP/" + spelled, "/top/" + spelled + "/POOL"):
            get = run(Resolver("name", ignorecase=True).get, top, path)
            strict = run(Resolver("name", ignorecase=True).glob, top, path)
            relaxed = run(Resolver("name", ignorecase=True, relax=True).glob, top, path)
            checked += 1
            if get[0] == "crash" or strict[0] == "crash" or relaxed[0] != "ok":
                raise Violation("strict-crash", "names %r path %r: get %r, strict glob %r, relaxed glob %r" % (case["names"], path, get[:2], strict[:2], relaxed[:2]))
            agree = (get[0] == "ok" and strict[0] == "ok" and len(strict[1]) == 1 and strict[1][0] is get[1] and len(relaxed[1]) == 1 and relaxed[1][0] is get[1]) or (get[0] == "error" and strict[0] == "error" and strict[1] == get[1] and relaxed[1] == [])
            if agree:
                continue
            # which children does each of the two pinned foldings select for the spelled component?
            by_upper = [k for k in kids if k.name.upper() == spelled.upper()]
            by_regex = [k for k in kids if re.fullmatch(re.escape(spelled), k.name, re.IGNORECASE)]
            if [id(k) for k in by_upper] != [id(k) for k in by_regex]:
                acc.known_finding("KF-C08-2", {"kind": "fold", "names": case["names"]})
                continue
            raise Violation("glob-vs-get", "names %r, ignorecase, path %r: get gives %s, strict glob %s, relaxed glob %s" % (case["names"], path, labels.label(get[1]) if get[0] == "ok" else get[1], labels.labels(strict[1]) if strict[0] == "ok" else strict[1], labels.labels(relaxed[1])))
    acc.evaluations += max(checked - 1, 0)
    acc.nontrivial(checked > 0)
    acc.tag("other_case_spellings_get_vs_glob", checked)


def check_case(case, acc):
    if case.get("kind") == "fold":
        return check_fold(case, acc)
    if case.get("kind") == "mixed":
        return check_mixed(case, acc)
    if case.get("kind") == "reentrant":
        return check_reentrant(case, acc)
    if case.get("kind") == "special":
        return check_special(case, acc)
    nodes = rr.build(case)
    labels = forest.Labels(nodes)
    _once(case, acc, nodes, labels, clear=not case.get("keep_cache"))
    for op in case.get("mutations", []):
        # same queries on the same node objects after the tree changed (the pattern cache keeps its state)
        refs.mutate_tree(nodes, op + [case["pathattr"]] if op[0] == "rename" else op)
        _once(case, acc, nodes, labels, clear=False)
        acc.tag("rechecked_after_mutation")


def _once(case, acc, nodes, labels, clear):
    preorder_index = {}
    for node in nodes:
        if node.parent is None:
            base = len(preorder_index)
            for i, n in enumerate(rr.preorder(node)):
                preorder_index[id(n)] = base + i
    unique = {ic: siblings_unique(nodes, case["pathattr"], ic) for ic in (False, True)}
    before = forest.snapshot(nodes, labels)
    if clear:
        Resolver._match_cache.clear()
    nontrivial = False
    nonempty = 0
    patterns = set()

    def case_for_kf(ic, start, pattern):
        return dict(case, queries=[[ic, labels.label(start), pattern, False]])

    for ic, start, pattern, clear in case["queries"]:
        if clear:
            Resolver._match_cache.clear()
        comps = pattern.split(case["sep"])
        if pattern.startswith(case["sep"]) and len(comps) > 1 and comps[1] == "**":
            acc.note("absolute_pattern_with_doublestar_root_skipped")
            continue
        if case.get("foreign_first"):
            use_on_foreign_tree(case, pattern, ic)
            acc.tag("queries_used_on_a_tree_with_another_separator_first")
        if case.get("get_first"):
            # the same text resolved as a literal path just before: nothing get() leaves behind may change what the pattern means
            try:
                Resolver(case["pathattr"], ignorecase=ic, relax=True).get(nodes[start], pattern)
            except Exception:  # noqa: BLE001 - get's own behaviour is C07's business
                pass
            acc.tag("queries_preceded_by_get_of_the_same_text")
        nt, ne = check_query(case, nodes, labels, preorder_index, ic, nodes[start], pattern, unique[ic], acc, case_for_kf)
        nontrivial = nontrivial or nt
        nonempty += ne
        patterns.add((pattern, ic))
    if forest.snapshot(nodes, labels) != before:
        raise Violation("no-mutation", "glob changed the tree")
    acc.evaluations += max(len(case["queries"]) - 1, 0)  # one evaluation = one query (relaxed + strict + get comparisons)
    acc.nontrivial(nontrivial)
    acc.tag("queries", len(case["queries"]))
    acc.tag("queries_with_nonempty_result", nonempty)
    acc.tag("cases_crossing_cache_eviction", len(patterns) > 20)
    acc.tag("cases_with_duplicate_sibling_names", not unique[False])


# ---------------------------------------------------------------------------
@st.composite
def random_cases(draw):
    shape = draw(strategies.tree_shapes(max_nodes=10, min_nodes=2))
    parents = shapes.shape_to_parents(forest.to_tuple(shape))
    size = len(parents)
    sep = draw(st.sampled_from(SEPS))
    alphabet = "".join(ch for ch in ALPHABET if ch not in sep)
    small = st.text(alphabet=alphabet, min_size=1, max_size=3).filter(lambda s: s not in (".", "..", "**"))
    pool = draw(st.lists(small, min_size=2, max_size=4))
    names = [draw(st.one_of(st.sampled_from(pool), st.sampled_from(pool), small, st.sampled_from(pool).map(lambda s: s + "\n"), st.sampled_from(pool).map(lambda s: s.swapcase()))) for _ in range(size)]
    names = [{"tag": n} if draw(st.integers(0, 7)) == 0 and "\n" not in n else n for n in names]
    names = [{"enum": [draw(st.sampled_from(["plain", "int", "str", "flag"])), draw(st.integers(0, 2))]} if draw(st.integers(0, 9)) == 0 else n for n in names]  # enum members as names  # some names are str-subclass objects whose str() differs
    if draw(st.integers(0, 9)) < 7:
        names = uniquify(names, parents)
    names = [n if sep not in rr.name_text(n) else "n%d" % i for i, n in enumerate(names)]  # 'X'.swapcase() with the separator 'x'
    links = draw(st.lists(st.integers(0, size - 1), max_size=3, unique=True)) if draw(st.integers(0, 3)) == 0 else []
    texts = [rr.name_text(n) for n in names]

    def qmark(s):
        return s[:-1] + "?"

    comp = st.one_of(
        st.sampled_from(texts),
        st.sampled_from(texts),
        st.sampled_from(texts).map(qmark),
        st.sampled_from(texts).map(lambda s: s[:1] + "*"),
        st.sampled_from(texts).map(lambda s: "*" + s[-1:]),
        st.sampled_from(texts).map(lambda s: s.swapcase()),
        st.sampled_from(["*", "*", "?", "?*", "**", "**", "..", ".", "", "zz", "a.b", "[a]"]),
        small,
    )
    queries = []
    many = draw(st.integers(0, 3)) == 0
    if many:
        # cache stress: a pool of > 20 distinct components used again and again in short patterns
        pool_c = draw(st.lists(comp, min_size=22, max_size=30, unique=True))
        comp = st.sampled_from(pool_c)
    for _ in range(draw(st.integers(30, 60) if many else st.integers(1, 6))):
        comps = draw(st.lists(comp, min_size=1, max_size=2 if many else 6))
        pattern = sep.join(comps)
        if draw(st.integers(0, 4)) == 0:
            rootc = draw(st.sampled_from([texts[0], texts[0], "*", "zz", "", texts[0].swapcase(), texts[0][:1] + "*"]))
            pattern = sep + rootc + sep + pattern
        start = draw(st.integers(0, size - 1))
        ic = draw(st.booleans())
        clear = draw(st.integers(0, 9)) == 0
        queries.append([ic, start, pattern, clear])
        if draw(st.integers(0, 2)) == 0:
            queries.append([not ic, start, pattern, False])
    if many:
        # re-use earlier queries after the eviction point (entries written around an eviction must not leak into later results)
        again = draw(st.lists(st.integers(0, len(queries) - 1), max_size=15))
        queries = queries + [queries[i] for i in again]
    muts = draw(strategies.tree_mutations(max_ops=2, rename_values=st.sampled_from(texts)))
    return {"links": links, "shape": shape, "names": names, "sep": sep, "pathattr": draw(st.sampled_from(["name", "name", "id"])), "queries": queries, "keep_cache": draw(st.booleans()), "mutations": muts, "get_first": draw(st.integers(0, 3)) == 0, "foreign_first": draw(st.integers(0, 2)) == 0}


ENUM_COMPS = ["a", "b", "a*", "?", "*", "**", "..", ".", "", "zz", "[a]"]
# more than _MAXCACHE (20) distinct single components: cycling through them evicts the cache again and again
CACHE_COMPS = ["a", "b", "a*", "*a", "?", "??", "a?", "?a", "*", "ab", "a.b", "A", "B", "[a]", "a+", "zz", "*b", "b*", "?b", "b?", "a.?", "*.*", "???", "a*b", "A*", "?B"]
SCHEMES = [["a", "b", "ab"], ["a", "A", "a.b"], ["[a]", "a", "b"]]


def _enum_cases(max_nodes, maxlen, index, count):
    patterns = []
    for length in range(1, maxlen + 1):
        for comps in itertools.product(ENUM_COMPS, repeat=length):
            patterns.append("/".join(comps))
            if length < maxlen:
                patterns.append("/a/" + "/".join(comps))
    patterns += ["/a", "/*", "/zz/a", "/", "//a"]
    k = 0
    for shape in shapes.trees_upto(max_nodes):
        size = shapes.shape_size(shape)
        parents = shapes.shape_to_parents(shape)
        for scheme in SCHEMES:
            names = ["a"] + [scheme[(i + (parents[i] or 0)) % 3] for i in range(1, size)]
            names = uniquify(names, parents)
            for start in range(size):
                k += 1
                if k % count != index:
                    continue
                queries = [[(j + k) % 2 == 0, start, pat, False] for j, pat in enumerate(patterns)]
                # earlier patterns again, after the cache has been evicted several times, and with the other ignorecase value
                queries += [q for q in queries[:45:2]] + [[not q[0], q[1], q[2], False] for q in queries[1:45:3]]
                cycle = [[(j + k) % 3 == 0, start, comp, False] for j, comp in enumerate(CACHE_COMPS)]
                cycle += [[(j + k) % 2 == 0, start, "*/" + comp, False] for j, comp in enumerate(CACHE_COMPS)]
                queries += cycle + cycle[::-1] + cycle[::3]
                yield {"shape": forest.to_list(shape), "names": names, "sep": "/", "pathattr": "name", "queries": queries}


def plan(tier, seed):
    nshards = 16
    examples = 150 if tier == "quick" else 1000
    max_nodes, maxlen = (4, 3) if tier == "quick" else (5, 4)
    tasks = [{"engine": "enum", "max_nodes": max_nodes, "maxlen": maxlen, "index": i, "count": nshards * 2} for i in range(nshards * 2)]
    tasks += [{"engine": "hyp", "examples": examples, "seed": seed * 1000 + i} for i in range(nshards)]
    tasks += [{"engine": "reentrant"}, {"engine": "mixed"}, {"engine": "regex"}, {"engine": "fold"}]
    tasks += [{"engine": "special", "seed": seed * 1000 + 700 + i, "examples": 8 if tier == "quick" else 60} for i in range(4)]
    if tier == "thorough":
        # coverage-guided supplement: 16 libFuzzer campaigns on the same strategy + oracle (skipped if atheris is unavailable)
        tasks += [{"engine": "fuzz", "runs": 4000, "seed": seed * 100 + i + 1} for i in range(nshards)]
    return tasks


def run_task(task, acc):
    if task["engine"] == "fuzz":
        from ..core import run_fuzz_task

        return run_fuzz_task(PROP_ID, task, acc)
    if task["engine"] == "regex":
        return acc.run_enum(check_case, _regex_cases())
    if task["engine"] == "fold":
        cases = [{"kind": "fold", "names": [n]} for n in FOLD_NAMES] + [{"kind": "fold", "names": [a, b]} for a in FOLD_NAMES[:4] for b in FOLD_NAMES[4:]]
        return acc.run_enum(check_case, cases)
    if task["engine"] == "mixed":
        for seps in (["/", ":"], [":", "/"], ["|", "::", "/"], ["::", "-"]):
            for ic in (False, True):
                case = {"kind": "mixed", "seps": seps, "ignorecase": ic}
                exc = acc.evaluate(check_case, case, enumerated=False)
                if exc is not None:
                    acc.add_violation(case, exc)
                    return
        return
    if task["engine"] == "reentrant":
        for inner, path in (("glob", "*/x"), ("glob", "**"), ("get", "p/x"), ("glob", "q"), (None, None)):
            case = {"kind": "reentrant", "inner": inner, "inner_path": path}
            exc = acc.evaluate(check_case, case, enumerated=False)
            if exc is not None:
                acc.add_violation(case, exc)
                break
        return
    if task["engine"] == "special":
        if task["seed"] % 4 == 0:
            # systematically: every group of names that some case mapping (lower, upper, casefold) maps to the same text
            groups = {}
            for fold in (str.lower, str.upper, str.casefold):
                for name in SPECIAL_NAMES:
                    groups.setdefault((fold.__name__, fold(name)), []).append(name)
            seen = set()
            for names in groups.values():
                if len(names) >= 2 and tuple(names) not in seen:
                    seen.add(tuple(names))
                    case = {"kind": "special", "names": names}
                    exc = acc.evaluate(check_case, case, enumerated=False)
                    if exc is not None:
                        acc.add_violation(case, exc)
                        return
        strat = st.lists(st.sampled_from(SPECIAL_NAMES), min_size=2, max_size=6, unique=True).map(lambda names: {"kind": "special", "names": names})
        return acc.run_hypothesis(check_case, strat, task["examples"], task["seed"])
    if task["engine"] == "enum":
        acc.run_enum(check_case, _enum_cases(task["max_nodes"], task["maxlen"], task["index"], task["count"]))
    else:
        acc.run_hypothesis(check_case, random_cases(), task["examples"], task["seed"])


def evidence_extra(total, tier):
    return {"exhaustive_subdomain": "all shapes <= %d nodes x 3 naming schemes x every start x every pattern of <= %d components over %s (relative, and absolute below the root name)" % ((4, 3, ENUM_COMPS) if tier == "quick" else (5, 4, ENUM_COMPS))}
