"""C20 - a symlink node has its own tree position and forwards the rest to its target."""
from hypothesis import strategies as st

from anytree import AnyNode, Node, NodeMixin, SymlinkNode

from .. import forest, mut, nodes
from ..core import Violation
from . import c04

PROP_ID = "C20"
LEVEL = "exploration"
NAMES = ["foo", "bar", "x", "a b", "name", "_priv", "é", "size2", "kids", "Target", "get", "e", "tar", "targets", "_target", "par", "parents", "child", "childre", "__meta__", "__rev__"]
CLASS_LEVEL_NAMES = ["separator", "icon", "title"]
assert not any(n in dir(NodeMixin) or n in ("parent", "children", "target") for n in NAMES)
RULE = (
    "cases = histories over a growing universe: create a plain node (Node/AnyNode with keyword attributes, or a Node subclass whose attribute 'bar' is a property with a setter), create a link (SymlinkNode with "
    "constructor keyword attributes, or a SymlinkNodeMixin subclass that keeps `target` in the instance dictionary, in a slot, behind a read-only property or as a class-level attribute) to any existing node - plain node or link, same or other tree -, "
    "structural calls (parent/children assignment, children deletion) on links and targets, attribute writes through links and on targets, "
    "for attribute names from a pool of 21 (none of them part of the node API; several are substrings or extensions of 'parent', 'children', 'target'). Assignments to two names that exist on the classes themselves ('separator'; 'icon', a class-level default of the user link classes; 'title', a settable property the user link classes inherit from an application base class) are judged on the write side only: stored on the target, nothing kept on the link. After every step the whole table node x name read through "
    "getattr is compared with an attribute-store model (value or AttributeError) and the whole forest with the structural model of C02. "
    "Systematic part: all short scripts create-link-chain x write x read. Non-trivial = history with a link to a link, or a write through a "
    "link followed by a structural call on that link or its target. Histories hashed for distinctness."
    ' Also: one-hop forwarding (every link answers what its direct target answers for names it does not define itself), class-level names and inherited settable properties judged on the write side, link classes keeping target in a slot/property/class attribute.'
    ' Also: computed attributes of a target are evaluated exactly once per read of a link.'
    ' Round 14: methods read through links.'
)
ASSUMPTIONS = [
    "attribute names exclude parent/children/target, the bookkeeping names, names Python itself looks up on instances (__setstate__, __class__, ...) and everything in dir(NodeMixin) (the node's own API is not forwarded data); user-chosen names of the form __x__ are included",
    "every node carries a 'name' (error messages format nodes with repr, and Node.__repr__ reads .name of every path node)",
    "after a refused structural call only the exception class and the link invariant are judged here (whole-forest rollback is C03's business); the structural model is then resynchronised",
]


class PropNode(Node):
    """An ordinary node class whose attribute 'bar' is a property with a setter (a validating / computed attribute).

    Assignments that reach such a target - through a link, a link to a link or a link's constructor keywords -
    must go through normal attribute assignment, otherwise the property never sees them.
    """

    @property
    def bar(self):
        try:
            return self.__dict__["_bar_value"]
        except KeyError:
            raise AttributeError("bar")

    @bar.setter
    def bar(self, value):
        self.__dict__["_bar_value"] = value

    @property
    def ticket(self):
        """A computed attribute whose every evaluation shows (a counter, a lazily allocated resource, next(iterator))."""
        self.__dict__["_tickets"] = self.__dict__.get("_tickets", 0) + 1
        return self.__dict__["_tickets"]

    def describe(self):
        """An ordinary method of the target's class: read through a link it is the TARGET's bound method, each time anew."""
        return "described %s" % (self.name,)

    def __getattr__(self, name):
        # computed defaults for names that are stored nowhere; every question is recorded
        if name.startswith("dyn_"):
            asked = self.__dict__.setdefault("_asked", [])
            asked.append(name)
            return "%s#%d" % (name, len(asked))
        raise AttributeError(name)


class World:
    def __init__(self):
        self.rec = mut.Recorder()
        mut.CURRENT[0] = self.rec
        self.nodes = []
        self.rec.universe = self.nodes
        self.kind = []  # "plain" / "link"
        self.target = []  # label of direct target for links
        self.store = []  # attribute dict for plain nodes
        self.state = []  # structural model
        self.api_store = []  # values assigned to names that exist on the classes (plain nodes only)

    def add(self, node, kind, target=None, store=None):
        self.rec.labels.add(node)
        self.nodes.append(node)
        self.kind.append(kind)
        self.target.append(target)
        self.store.append(store)
        self.state.append([None, []])
        self.api_store.append({})
        return len(self.nodes) - 1

    def resolve(self, label):
        seen = 0
        while self.kind[label] == "link":
            label = self.target[label]
            seen += 1
            if seen > len(self.nodes):
                raise Violation("model", "link cycle in model")
        return label


def _reaches(world, start, goal):
    seen = 0
    while world.kind[start] == "link" and seen <= len(world.nodes):
        start = world.target[start]
        seen += 1
        if start == goal:
            return True
    return False


def check_table(world, ctx):
    for label, node in enumerate(world.nodes):
        store = world.store[world.resolve(label)]
        for name in NAMES:
            try:
                got = ("value", getattr(node, name))
            except AttributeError:
                got = ("missing", None)
            want = ("value", store[name]) if name in store else ("missing", None)
            if got[0] != want[0] or (got[0] == "value" and not (type(got[1]) is type(want[1]) and got[1] == want[1])):
                raise Violation("attribute-table", "%s: reading %r on node %d (%s) gives %r, model %r; links=%s" % (ctx, name, label, world.kind[label], got, want, [(i, t) for i, t in enumerate(world.target) if t is not None]))
        if world.kind[label] == "link":
            if node.target is not world.nodes[world.target[label]]:
                raise Violation("target-attribute", "%s: link %d no longer points at its target" % (ctx, label))
    for label, node in enumerate(world.nodes):
        # names that also exist on the link's class (API names used as data, class-level defaults of a link subclass):
        # the assignment is stored on the target all the same and nothing is kept on the link
        if world.kind[label] == "link":
            for name in CLASS_LEVEL_NAMES:
                if name in vars(node):
                    raise Violation("assignment-kept-on-link", "%s: link %d keeps %r in its own dictionary: %r" % (ctx, label, name, vars(node)[name]))
        else:
            for name, value in world.api_store[label].items():
                got = vars(node).get(name, "<nothing stored>")
                if not (type(got) is type(value) and got == value):
                    raise Violation("assignment-not-on-target", "%s: node %d should hold %s=%r (assigned directly or through a link), holds %r" % (ctx, label, name, value, got))
    for label, node in enumerate(world.nodes):
        # one hop at a time: what a link does not define itself is what its DIRECT target answers (the target may be a
        # link of another class that answers the name itself - a class attribute, a property - or forwards it in turn)
        if world.kind[label] != "link":
            continue
        for name in NAMES + CLASS_LEVEL_NAMES:
            if hasattr(type(node), name):
                continue
            mine = theirs = ("missing", None)
            try:
                mine = ("value", getattr(node, name))
            except AttributeError:
                pass
            try:
                theirs = ("value", getattr(node.target, name))
            except AttributeError:
                pass
            if mine[0] != theirs[0] or (mine[0] == "value" and mine[1] is not theirs[1] and not (type(mine[1]) is type(theirs[1]) and mine[1] == theirs[1])):
                raise Violation("one-hop-forwarding", "%s: link %d (%s) answers %r for %r, its direct target (%s) answers %r" % (ctx, label, type(node).__name__, mine, name, type(node.target).__name__, theirs))
    for label, node in enumerate(world.nodes):
        # a forwarded read IS one read of the target: computed attributes are evaluated exactly once per read of the link
        base = world.nodes[world.resolve(label)]
        if world.kind[label] != "link" or type(base) is not PropNode:
            continue
        t0 = base.ticket
        via = node.ticket
        t2 = base.ticket
        if via != t0 + 1 or t2 != t0 + 2:
            raise Violation("forwarded-read-evaluated-once", "%s: the target's counting property gave %r, then %r through link %d, then %r directly" % (ctx, t0, via, label, t2))
        asked0 = len(base.__dict__.get("_asked", []))
        answer = getattr(node, "dyn_q")
        asked = base.__dict__.get("_asked", [])
        if answer != "dyn_q#%d" % (asked0 + 1) or len(asked) != asked0 + 1:
            raise Violation("forwarded-read-evaluated-once", "%s: reading a computed default through link %d gave %r; the target was asked %d time(s)" % (ctx, label, answer, len(asked) - asked0))
        # methods of the target's class: the link hands out the target's bound method - and whatever replaces it later
        bound = node.describe
        if getattr(bound, "__self__", None) is not base or bound() != base.describe():
            raise Violation("forwarded-read-evaluated-once", "%s: a method read through link %d is not the target's bound method" % (ctx, label))
        setattr(base, "describe", "data now")
        try:
            if node.describe != "data now" or "describe" in vars(node):
                raise Violation("attribute-table", "%s: after the target's attribute 'describe' was assigned, link %d still answers %r (own dict: %r)" % (ctx, label, node.describe, sorted(vars(node))))
        finally:
            del base.__dict__["describe"]
        if getattr(node.describe, "__self__", None) is not base:
            raise Violation("attribute-table", "%s: after the target's instance attribute was deleted again, link %d does not answer with the method" % (ctx, label))
        if hasattr(node, "undefined_everywhere") or len(base.__dict__.get("_asked", [])) != asked0 + 1:
            raise Violation("forwarded-read-evaluated-once", "%s: a name defined nowhere is reported as present through link %d" % (ctx, label))
    for node in world.nodes:
        # the navigation attributes of every node - links included - follow its OWN position (definitions of C04)
        c04.check_node(node, world.rec.labels)
    snap = mut.snapshot(world.nodes, world.rec.labels)
    if snap != world.state:
        raise Violation("structure", "%s: forest is %s, structural model %s" % (ctx, snap, world.state))
    problem = mut.consistency_problem(world.nodes, world.rec.labels)
    if problem:
        raise Violation("consistency", "%s: %s" % (ctx, problem))


def check_case(case, acc):
    world = World()
    link_to_link = False
    wrote_through = set()
    write_then_structural = False
    for i, step in enumerate(case["steps"]):
        kind = step[0]
        ctx = "step %d %s" % (i, step)
        n = len(world.nodes)
        if kind == "new_plain":
            attrs = dict(step[2])
            if step[1] in ("Node", "PropNode"):
                attrs.pop("name", None)  # 'name' is Node's own positional parameter
                if step[1] == "PropNode":
                    attrs.pop("bar", None)  # Node's own constructor writes keywords into __dict__, behind the property
                node = (PropNode if step[1] == "PropNode" else Node)("n%d" % n, **attrs)
                store = dict(attrs, name="n%d" % n)
            else:
                attrs.setdefault("name", "a%d" % n)
                node = AnyNode(**attrs)
                store = dict(attrs)
            world.add(node, "plain", store=store)
        elif kind == "new_link":
            if n == 0:
                continue
            tlabel = step[2] % n
            target = world.nodes[tlabel]
            kwargs = dict(step[3]) if step[1] == "SymlinkNode" else {}
            if step[1] == "SymlinkNode":
                node = SymlinkNode(target, **kwargs)
            else:
                node = nodes.make_link(step[1], target)
            world.add(node, "link", target=tlabel)
            world.store[world.resolve(tlabel)].update(kwargs)
            if world.kind[tlabel] == "link":
                link_to_link = True
        elif kind == "retarget":
            # a link whose `target` is COMPUTED (a property over state of its own) starts to point at another node without any
            # assignment to `link.target`: from then on reads and writes go to the new target
            if n == 0:
                continue
            label = step[1] % n
            new_target = step[2] % n
            node = world.nodes[label]
            if type(node) is nodes.PropLink and new_target != label and world.resolve(new_target) != label and not (world.kind[new_target] == "link" and _reaches(world, new_target, label)):
                object.__setattr__(node, "_ref", world.nodes[new_target])
                world.target[label] = new_target
        elif kind == "set_api":
            if n == 0:
                continue
            label = step[1] % n
            setattr(world.nodes[label], step[2], step[3])
            world.api_store[world.resolve(label)][step[2]] = step[3]
        elif kind == "set":
            if n == 0:
                continue
            label = step[1] % n
            setattr(world.nodes[label], step[2], step[3])
            world.store[world.resolve(label)][step[2]] = step[3]
            if world.kind[label] == "link":
                wrote_through.add(label)
                wrote_through.add(world.resolve(label))
        else:
            if n == 0:
                continue
            op = list(step)
            op[1] = op[1] % n
            if kind == "parent":
                op[2] = None if op[2] is None else op[2] % n
            elif kind == "children":
                op[2] = [x % n for x in op[2]]
            verdict, new = mut.spec(world.state, op, "NM")
            exc = mut.execute(world.nodes, op)
            if verdict == "ok":
                if exc is not None:
                    raise Violation("spurious-refusal", "%s raised %s: %s" % (ctx, type(exc).__name__, exc))
                world.state = new
            else:
                if exc is None or type(exc).__name__ != new:
                    raise Violation("refusal-class", "%s must raise %s, got %s" % (ctx, new, type(exc).__name__ if exc else "no exception"))
                world.state = mut.snapshot(world.nodes, world.rec.labels)
            touched = {op[1]} | ({op[2]} if kind == "parent" and op[2] is not None else set()) | (set(op[2]) if kind == "children" else set())
            if touched & wrote_through:
                write_then_structural = True
        check_table(world, ctx)
    acc.nontrivial(link_to_link or write_then_structural)
    acc.tag("steps", len(case["steps"]))
    acc.tag("histories_with_link_to_link", link_to_link)
    acc.tag("histories_with_write_through_link_then_structural_call", write_then_structural)
    acc.tag("nodes_created", len(world.nodes))


VALUE = st.one_of(st.integers(-3, 3), st.sampled_from(["v", "", "w w"]), st.none(), st.sampled_from([False, 0]))
ATTRS = st.lists(st.tuples(st.sampled_from(NAMES), VALUE).map(list), max_size=2, unique_by=lambda kv: kv[0])
IDX = st.integers(0, 40)


@st.composite
def random_cases(draw):
    step = st.one_of(
        st.tuples(st.just("new_plain"), st.sampled_from(["Node", "AnyNode", "PropNode"]), ATTRS).map(list),
        st.tuples(st.just("new_link"), st.sampled_from(["SymlinkNode", "SymlinkNode"] + nodes.LINK_KINDS), IDX, ATTRS).map(list),
        st.tuples(st.just("new_link"), st.sampled_from(["SymlinkNode"] + nodes.LINK_KINDS), IDX, ATTRS).map(list),
        st.tuples(st.just("set"), IDX, st.sampled_from(NAMES), VALUE).map(list),
        st.tuples(st.just("set"), IDX, st.sampled_from(NAMES), VALUE).map(list),
        st.tuples(st.just("retarget"), IDX, IDX).map(list),
        st.tuples(st.just("set_api"), IDX, st.just("separator"), st.sampled_from(["|", "::", "/"])).map(list),
        st.tuples(st.just("set_api"), IDX, st.just("icon"), VALUE).map(list),
        st.tuples(st.just("set_api"), IDX, st.just("title"), VALUE).map(list),
        st.tuples(st.just("parent"), IDX, st.one_of(st.none(), IDX)).map(list),
        st.tuples(st.just("children"), IDX, st.lists(IDX, max_size=3)).map(list),
        st.tuples(st.just("del"), IDX).map(list),
    )
    first = draw(st.tuples(st.just("new_plain"), st.sampled_from(["Node", "AnyNode", "PropNode"]), ATTRS).map(list))
    return {"steps": [first] + draw(st.lists(step, min_size=1, max_size=25))}


def _systematic_cases(index, count):
    k = 0
    for cls0 in ("Node", "AnyNode", "PropNode"):
        for chain in range(1, 4):
            for linkcls in ["SymlinkNode"] + nodes.LINK_KINDS:
                for ctor_kw in ([], [["foo", 1]], [["name", "renamed"], ["bar", "v"]], [["foo", None]]):
                    for write_at in range(0, chain + 1):
                        k += 1
                        if k % count != index:
                            continue
                        steps = [["new_plain", cls0, [["x", 0]]], ["new_plain", "Node", []]]
                        for c in range(chain):
                            steps.append(["new_link", linkcls if c % 2 == 0 else "SymlinkNode", 0 if c == 0 else 1 + c, ctor_kw if c == chain - 1 else []])
                        steps.append(["set", 0 if write_at == 0 else 1 + write_at, "foo", 5])
                        steps.append(["retarget", 2, 1])
                        steps.append(["set", 2, "x", 9])
                        steps.append(["retarget", 2, 0])
                        steps.append(["parent", 2, 1])
                        steps.append(["set", 1 + chain, "bar", "w w"])
                        steps.append(["children", 0, [1 + chain]])
                        steps.append(["set", 0, "foo", -1])
                        steps.append(["parent", 1 + chain, None])
                        yield {"steps": steps}


def plan(tier, seed):
    nshards = 16
    examples = 300 if tier == "quick" else 8000
    tasks = [{"engine": "systematic", "index": i, "count": 4} for i in range(4)]
    tasks += [{"engine": "hyp", "examples": examples, "seed": seed * 1000 + i} for i in range(nshards)]
    return tasks


def run_task(task, acc):
    if task["engine"] == "systematic":
        for case in _systematic_cases(task["index"], task["count"]):
            exc = acc.evaluate(check_case, case, enumerated=False)
            if exc is not None:
                acc.add_violation(case, exc)
                break
    else:
        acc.run_hypothesis(check_case, random_cases(), task["examples"], task["seed"])
