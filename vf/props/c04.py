"""C04 - navigation attributes and sibling/ancestor helpers equal their definitions."""
import itertools
import warnings

from hypothesis import strategies as st

from anytree import SymlinkNodeMixin, TreeError, util

from .. import forest, nodes, refs, shapes, strategies
from ..core import Violation

PROP_ID = "C04"
LEVEL = "exploration"
RULE = (
    "cases: (a) every ordered tree shape up to 7 (quick) / 10 (thorough) nodes, every node checked, commonancestors on all "
    "pairs and (<= 6 nodes) all triples plus 0/1/repeated arguments and 5-12 arguments with one odd node out; (b) Hypothesis trees up to 60 nodes; (c) mutation "
    "histories (parent/children assignments and deletions on up to 8 nodes) with all attributes re-checked after every step; (d) chains of 700-3000 nodes (upward-looking attributes) and nodes with 300-2000 children. "
    "Node classes: all of vf/nodes.py (Node, AnyNode, user NodeMixin/LightNodeMixin classes, classes with own __eq__/__bool__/__len__/container behaviour, "
    "SymlinkNode with targets in another tree or - class SelfLinks - in the same tree; for a link the target, the target's root and the link again "
    "are checked right after the link, so neither may disturb the other's answers). "
    "Non-trivial = the case contains a node with depth >= 1 that has a sibling or a descendant (shape cases), or a history "
    "with >= 3 successful link changes. Enumerated cases distinct by construction; generated ones hashed."
    ' Also: sparse reads between calls; every parent assignment on forests N <= 4 with an evicting hook, attributes checked right afterwards.'
    ' Rounds 11-14: ViewMix/CachedKids/StrictEq classes, deep bushy trees (value or RecursionError), wide nodes changed without reads, trees pickled and changed across processes.'
)
ASSUMPTIONS = [
    "the definitions are recomputed using only .parent and .children, compared by identity",
    "tree depth stays below the recursion limit",
]


def _seq(name, got, exp, labels):
    if not isinstance(got, tuple):
        raise Violation(name + "-type", "%s is %s, expected tuple" % (name, type(got).__name__))
    if not refs.same_seq(got, exp):
        raise Violation(name, "expected %s got %s" % (labels.labels(exp), labels.labels(got)))


def check_node(node, labels):
    """All attribute definitions for one node."""
    chain = []
    cur = node
    while cur is not None:
        chain.append(cur)
        cur = cur.parent
        if len(chain) > 10000:
            raise Violation("parent-chain", "does not terminate")
    path = list(reversed(chain))
    here = "node %s" % labels.label(node)
    _seq("path", node.path, path, labels)
    _seq("ancestors", node.ancestors, path[:-1], labels)
    if node.root is not path[0]:
        raise Violation("root", here)
    if node.depth != len(path) - 1 or type(node.depth) is not int:
        raise Violation("depth", "%s expected %d got %r" % (here, len(path) - 1, node.depth))
    parent = node.parent
    kids = list(node.children)
    if any(kid.parent is not node for kid in kids):
        # the definitions are stated over ONE parent/children relation: a listed child whose parent is somebody else makes them ambiguous
        raise Violation("structure", "%s lists a child whose parent is not this node" % here)
    if node.is_root is not (parent is None):
        raise Violation("is_root", here)
    if node.is_leaf is not (len(kids) == 0):
        raise Violation("is_leaf", here)
    if parent is None:
        sibs = []
    else:
        sibs = [c for c in parent.children if c is not node]
    _seq("siblings", node.siblings, sibs, labels)
    pre = refs.preorder(node)
    _seq("descendants", node.descendants, pre[1:], labels)
    _seq("leaves", node.leaves, [n for n in pre if len(list(n.children)) == 0], labels)
    if node.size != len(pre):
        raise Violation("size", "%s expected %d got %r" % (here, len(pre), node.size))
    height = len(refs.levels(node)) - 1
    if node.height != height:
        raise Violation("height", "%s expected %d got %r" % (here, height, node.height))
    got = list(node.iter_path_reverse())
    if not refs.same_seq(got, chain):
        raise Violation("iter_path_reverse", here)
    # siblings helpers
    left = right = None
    if parent is not None:
        pk = list(parent.children)
        idx = [i for i, c in enumerate(pk) if c is node]
        if len(idx) != 1:
            raise Violation("structure", "%s occurs %d times in its parent's children" % (here, len(idx)))
        left = pk[idx[0] - 1] if idx[0] > 0 else None
        right = pk[idx[0] + 1] if idx[0] + 1 < len(pk) else None
    if util.leftsibling(node) is not left:
        raise Violation("leftsibling", "%s expected %s got %s" % (here, labels.label(left), labels.label(util.leftsibling(node))))
    if util.rightsibling(node) is not right:
        raise Violation("rightsibling", "%s expected %s got %s" % (here, labels.label(right), labels.label(util.rightsibling(node))))
    if hasattr(type(node), "anchestors"):
        with warnings.catch_warnings():
            warnings.simplefilter("ignore")
            _seq("anchestors", node.anchestors, path[:-1], labels)
    return len(path) - 1, len(sibs), len(pre) - 1


def ref_common(args):
    chains = []
    for node in args:
        chain = []
        cur = node.parent
        while cur is not None:
            chain.append(cur)
            cur = cur.parent
        chains.append(list(reversed(chain)))
    if not chains:
        return []
    out = []
    for i in range(min(len(c) for c in chains)):
        if all(c[i] is chains[0][i] for c in chains):
            out.append(chains[0][i])
        else:
            break
    return out


def check_common(args, labels):
    got = util.commonancestors(*args)
    _seq("commonancestors", got, ref_common(args), labels)


def check_all(tree, labels, acc, triples):
    nontrivial = False
    for node in tree:
        depth, nsib, ndesc = check_node(node, labels)
        if depth >= 1 and (nsib or ndesc):
            nontrivial = True
        if isinstance(node, SymlinkNodeMixin):
            # a link and its target are two nodes with two positions: asking one must not change what the other answers
            target = node.target
            for other in (target, target.root, node):
                check_node(other, labels)
    check_common([], labels)
    for a in tree:
        check_common([a], labels)
        check_common([a, a], labels)
    for a, b in itertools.product(tree, repeat=2):
        check_common([a, b], labels)
    if triples:
        for a, b, c in itertools.product(tree, repeat=3):
            check_common([a, b, c], labels)
    # longer argument lists (round 16: a pairwise reduction that loses one chain when the count becomes odd): one node
    # that differs from all the others, at the front, in the middle and at the end of 4 to 14 arguments
    nodes = list(tree)
    if nodes:
        deepest = max(nodes, key=lambda n: len(ref_common([n])))
        for a in nodes:
            for b in (deepest,):
                if a is b:
                    continue
                for k in (5, 6, 7, 10, 12):
                    for pos in (0, k // 2, k - 1):
                        args = [b] * k
                        args[pos] = a
                        check_common(args, labels)
    return nontrivial


def apply_op(universe, op):
    kind = op[0]
    try:
        if kind == "parent":
            universe[op[1]].parent = None if op[2] is None else universe[op[2]]
        elif kind == "children":
            universe[op[1]].children = [universe[i] for i in op[2]]
        else:
            del universe[op[1]].children
        return True
    except TreeError:  # refused calls (TreeError, LoopError) are part of a history
        return False


def build_deep(case, make):
    """A chain of case['depth'] nodes with a side leaf every case['every'] levels: [spine nodes], [side leaves]."""
    spine = [make(0)]
    side = []
    for i in range(1, case["depth"]):
        node = make(i)
        node.parent = spine[-1]
        if i % case["every"] == 0:
            leaf = make(100000 + i)
            leaf.parent = spine[-1]
            side.append(leaf)
        spine.append(node)
    return spine, side


def check_deep(case, acc):
    """Upward-looking attributes on very deep trees (they are computed iteratively, so depth is no excuse);
    downward-recursive ones (height, descendants, ...) are left out: the interpreter's recursion limit applies to them."""
    make = nodes.factory(case["cls"])
    spine, side = build_deep(case, make)
    labels = forest.Labels(spine + side)
    picks = [spine[0], spine[1], spine[len(spine) // 2], spine[-2], spine[-1]] + side[:1] + side[-1:]
    for node in picks:
        chain = []
        cur = node
        while cur is not None:
            chain.append(cur)
            cur = cur.parent
        path = list(reversed(chain))
        _seq("path", node.path, path, labels)
        _seq("ancestors", node.ancestors, path[:-1], labels)
        if node.root is not path[0]:
            raise Violation("root", "deep tree")
        if node.depth != len(path) - 1:
            raise Violation("depth", "deep tree: expected %d got %r" % (len(path) - 1, node.depth))
        if not refs.same_seq(list(node.iter_path_reverse()), chain):
            raise Violation("iter_path_reverse", "deep tree")
        parent = node.parent
        sibs = [] if parent is None else [c for c in parent.children if c is not node]
        _seq("siblings", node.siblings, sibs, labels)
        if node.is_root is not (parent is None):
            raise Violation("is_root", "deep tree")
    for a in picks:
        for b in picks:
            check_common([a, b], labels)
    acc.nontrivial(True)
    acc.tag("deep_tree_cases")


WIDE_OPS = ["detach-last", "detach-first", "attach-new", "reattach", "rotate", "read-child"]


def check_wide_sparse(case, acc):
    """A node with 9-12 children whose `children` was read once; then a short history of changes at its ends WITHOUT reading
    its children in between (only the attributes of the nodes being moved); at the end every attribute of every node is
    compared with its definition. What is remembered from an earlier read must not survive changes it did not see."""
    make = nodes.factory(case["cls"])
    top = make(0)
    kids = []
    for i in range(case["width"]):
        kid = make(1 + i)
        kid.parent = top
        kids.append(kid)
    extra = make(500)
    extra.parent = kids[2]
    everything = [top] + kids + [extra]
    _ = top.children, top.leaves, kids[-1].siblings  # the one early read
    model = list(kids)
    detached = []
    spare = 600
    for op in case["ops"]:
        if op == "detach-last" and model:
            node = model.pop()
            node.parent = None
            detached.append(node)
        elif op == "detach-first" and model:
            node = model.pop(0)
            node.parent = None
            detached.append(node)
        elif op == "attach-new":
            node = make(spare)
            spare += 1
            node.parent = top
            model.append(node)
            everything.append(node)
        elif op == "reattach" and detached:
            node = detached.pop(0)
            node.parent = top
            model.append(node)
        elif op == "rotate" and len(model) >= 2:
            model = model[1:] + model[:1]
            top.children = model
        elif op == "read-child" and model:
            _ = model[-1].parent, model[-1].depth  # reads that do not involve the parent's children
    got = top.children
    if len(got) != len(model) or any(a is not b for a, b in zip(got, model)):
        raise Violation("children", "%s node with %d children after %s without reads in between: children are %s, the links say %s" % (case["cls"], case["width"], case["ops"], [str(c.name) for c in got], [str(c.name) for c in model]))
    labels = forest.Labels(everything)
    check_all([n for n in everything], labels, acc, triples=False)
    acc.nontrivial(True)
    acc.tag("wide_node_histories_without_reads_in_between")


PICKLE_SCRIPT = r"""
import pickle, sys
from vf import nodes
make = nodes.factory(sys.argv[1])
tree = [make(i) for i in range(6)]
for child, parent in ((1, 0), (2, 1), (3, 2), (4, 0), (5, 4)):
    tree[child].parent = tree[parent]
for n in tree:  # every attribute is read once before the tree leaves this process
    n.depth, n.height, n.size, n.path, n.leaves, n.siblings, n.children, n.ancestors, n.descendants, n.is_leaf, n.is_root, n.root
sys.stdout.buffer.write(pickle.dumps(tree[0], 4))
"""


LOAD_SCRIPT = r"""
import pickle, sys
from vf import nodes
make = nodes.factory(sys.argv[1])
data = sys.stdin.buffer.read()
problems = []
for extra in range(0, 12):
    root = pickle.loads(data)
    a = root.children[0]; b = a.children[0]; c = b.children[0]
    fresh = [make(100 + i) for i in range(extra)]
    b.parent = root            # changes the depth of b and c; nothing is read from here on ...
    for node in fresh:
        node.parent = root     # ... while further link changes happen elsewhere in the tree
    todo, everything = [root], []
    while todo:
        cur = todo.pop(); everything.append(cur); todo.extend(cur.children)
    for n in everything:
        chain = []
        cur = n.parent
        while cur is not None:
            chain.append(cur); cur = cur.parent
        below, stack = [], list(reversed(n.children))
        while stack:
            cur = stack.pop(); below.append(cur); stack.extend(reversed(cur.children))
        def height(x):
            return 1 + max(height(k) for k in x.children) if x.children else 0
        want = {"depth": len(chain), "ancestors": len(chain), "path": len(chain) + 1, "size": len(below) + 1, "descendants": [id(x) for x in below],
                "leaves": [id(x) for x in [n] + below if not x.children], "height": height(n), "is_root": n.parent is None, "is_leaf": not n.children,
                "siblings": [id(x) for x in (n.parent.children if n.parent is not None else ()) if x is not n], "root": id(chain[-1] if chain else n)}
        got = {"depth": n.depth, "ancestors": len(n.ancestors), "path": len(n.path), "size": n.size, "descendants": [id(x) for x in n.descendants],
               "leaves": [id(x) for x in n.leaves], "height": n.height, "is_root": n.is_root, "is_leaf": n.is_leaf, "siblings": [id(x) for x in n.siblings], "root": id(n.root)}
        for key in want:
            if want[key] != got[key]:
                problems.append("%d extra nodes: %s of node %r is %r, the links say %r" % (extra, key, getattr(n, "name", None), got[key] if not isinstance(got[key], list) else len(got[key]), want[key] if not isinstance(want[key], list) else len(want[key])))
print("SAME" if not problems else "; ".join(problems[:4]))
"""


def check_cross_process(case, acc):
    """A tree that was built and read in one process, pickled there, and loaded in ANOTHER fresh process, changed there
    without reads and compared with the definitions: whatever a node remembers about itself must not outlive the process
    that computed it (counters and caches start again in every process)."""
    import os
    import subprocess
    import sys

    from .. import core

    env = dict(os.environ, PYTHONPATH=os.pathsep.join([core.REPO, core.ROOT]))
    first = subprocess.run([sys.executable, "-c", PICKLE_SCRIPT, case["cls"]], env=env, stdout=subprocess.PIPE, stderr=subprocess.PIPE, timeout=120)
    if first.returncode != 0:
        raise Violation("unexpected-exception", "building and pickling a %s tree in a child interpreter failed: %s" % (case["cls"], first.stderr.decode("utf-8", "replace")[-600:]))
    second = subprocess.run([sys.executable, "-c", LOAD_SCRIPT, case["cls"]], env=env, input=first.stdout, stdout=subprocess.PIPE, stderr=subprocess.PIPE, timeout=120)
    out = second.stdout.decode("utf-8", "replace").strip()
    if out != "SAME":
        raise Violation("depth" if "depth" in out else "attributes", "%s tree pickled in one process, loaded and changed in another: %s %s" % (case["cls"], out, second.stderr.decode("utf-8", "replace")[-400:]))
    acc.nontrivial(True)
    acc.tag("trees_pickled_in_another_process")


def check_deep_bushy(case, acc):
    """The downward-recursive attributes on a deep AND bushy tree (every spine node has a leaf as first child and the next
    spine node as second): the interpreter's recursion limit is a legitimate way out (RecursionError), a wrong value or a
    wrong order is not."""
    import sys

    make = nodes.factory(case["cls"])
    depth = int(case["factor"] * sys.getrecursionlimit())
    spine = [make(0)]
    leaves = []
    for i in range(1, depth):
        leaf = make(100000 + i)
        leaf.parent = spine[-1]
        leaves.append(leaf)
        node = make(i)
        node.parent = spine[-1]
        spine.append(node)
    labels = forest.Labels(spine + leaves)
    for start_index in (0, depth // 3):
        start = spine[start_index]
        pre, stack = [], [start]
        while stack:
            cur = stack.pop()
            pre.append(cur)
            stack.extend(reversed(cur.children))
        expect = {
            "height": depth - 1 - start_index,
            "size": len(pre),
            "descendants": pre[1:],
            "leaves": [n for n in pre if not n.children],
        }
        for key, want in expect.items():
            try:
                got = getattr(start, key)
            except RecursionError:
                acc.tag("deep_bushy_attribute_ended_in_RecursionError")
                continue
            if isinstance(want, int):
                if got != want:
                    raise Violation(key, "deep bushy tree (%d levels, %.1f x the recursion limit), node %d: %s = %r, by definition %r" % (depth, case["factor"], start_index, key, got, want))
            elif not refs.same_seq(list(got), want):
                first = next((i for i, (a, b) in enumerate(zip(got, want)) if a is not b), min(len(got), len(want)))
                raise Violation(key, "deep bushy tree (%d levels, %.1f x the recursion limit), node %d: %s has %d entries (definition: %d), first difference at %d" % (depth, case["factor"], start_index, key, len(got), len(want), first))
    acc.nontrivial(True)
    acc.tag("deep_bushy_cases")


def check_hooked(case, acc):
    """The attributes right after a call during which a hook of the moving node edited the tree itself (it detached a sibling):
    'computed from the current links, correct immediately after any mutation' includes mutations made by hooks."""
    from .. import mut

    rec, universe = mut.make_universe(case["cls"], case["state"], "parent")
    labels = forest.Labels(universe)
    rec.begin_call({"evict": [[case["hook"], case["op"][1]]]})
    exc = mut.execute(universe, case["op"])
    fired = bool(rec.log)
    rec.begin_call(None)
    if isinstance(exc, Exception) and not isinstance(exc, TreeError):
        raise Violation("structure", "%s on %s with an evicting %s hook raised %s: %s" % (case["op"], case["state"], case["hook"], type(exc).__name__, exc))
    check_all(universe, labels, acc, triples=False)
    acc.nontrivial(fired)
    acc.tag("calls_with_an_evicting_hook")


def check_wide(case, acc):
    """A node with many hundreds of children (a directory listing): every child's attributes and sibling helpers."""
    make = nodes.factory(case["cls"])
    width = case["width"]
    top = make(0)
    hub = make(1)
    hub.parent = top
    kids = [make(2 + i) for i in range(width)]
    if case.get("via") == "children":
        hub.children = kids
    else:
        for kid in kids:
            kid.parent = hub
    below = make(2 + width)
    below.parent = kids[-1]
    labels = forest.Labels([top, hub] + kids + [below])
    picks = sorted({0, 1, 2, width // 2, 254, 255, 256, 257, 258, width - 3, width - 2, width - 1} & set(range(width)))
    for rounds in range(2):
        for i in picks:
            if i < len(kids):
                check_node(kids[i], labels)
        check_node(hub, labels)
        check_node(top, labels)
        check_node(below, labels)
        check_common([kids[0], kids[-1]], labels)
        check_common([below, kids[len(kids) // 2]], labels)
        # ... and again after the last child left (its left neighbour is the last one now)
        kids[-1].parent = None
        kids.pop()
        picks = [i for i in picks if i < len(kids)] + [len(kids) - 1]
    acc.nontrivial(True)
    acc.tag("wide_node_cases")


def check_case(case, acc):
    if case["kind"] == "hooked":
        return check_hooked(case, acc)
    if case["kind"] == "deep":
        return check_deep(case, acc)
    if case["kind"] == "deep-bushy":
        return check_deep_bushy(case, acc)
    if case["kind"] == "wide-sparse":
        return check_wide_sparse(case, acc)
    if case["kind"] == "cross-process":
        return check_cross_process(case, acc)
    if case["kind"] == "wide":
        return check_wide(case, acc)
    make = nodes.factory(case["cls"])
    if case["kind"] == "shape":
        tree = forest.build_tree(case["shape"], make, via=case.get("via", "parent"))
        labels = forest.Labels(tree)
        nontrivial = check_all(tree, labels, acc, triples=len(tree) <= 6)
        acc.nontrivial(nontrivial)
        acc.tag("nodes_checked", len(tree))
    else:
        universe = [make(i) for i in range(case["n"])]
        labels = forest.Labels(universe)
        changes = 0
        reads = case.get("reads")
        for stepno, op in enumerate(case["ops"]):
            before = forest.snapshot(universe, labels) if reads is None else None
            apply_op(universe, op)
            if reads is None:
                if forest.snapshot(universe, labels) != before:
                    changes += 1
                check_all(universe, labels, acc, triples=False)
            else:
                # sparse reads: only a few nodes are asked between two calls (whatever the library remembers about the
                # nodes that were NOT asked must not go stale either); everything is asked at the end
                changes += 1
                for idx in reads[stepno % len(reads)]:
                    check_node(universe[idx % case["n"]], labels)
        if reads is not None:
            check_all(universe, labels, acc, triples=False)
            acc.tag("histories_with_sparse_reads")
        acc.nontrivial(changes >= 3)
        acc.tag("history_steps", len(case["ops"]))
        acc.tag("history_link_changing_steps", changes)


def _enum_cases(max_nodes, index, count):
    k = 0
    for shape in shapes.trees_upto(max_nodes):
        for cls in ("Node", "SlotLM", "SymlinkNode", "SelfLinks", "ShadowData", "EqNode", "FalsyNode", "LenNode", "EqSlotLM", "ListNode", "TupleNode", "StrictEqNode", "ViewMix"):
            k += 1
            if k % count == index:
                yield {"kind": "shape", "shape": forest.to_list(shape), "cls": cls, "via": "parent" if k % 2 else "children"}


def _sparse_chain_cases():
    """A chain; one deep node D is asked; a node X above it is moved or detached; D is asked again (nothing else is ever asked
    in between) - for every D, every X and three destinations, then everything is asked."""
    for cls in ("Node", "SlotLM", "DictLM", "AnyNode"):
        for n in (4, 5, 6, 7):
            chain = [["parent", i, i - 1] for i in range(1, n)]
            for d in range(2, n):
                for x in range(1, d + 1):
                    for dest in (None, n, n + 1):
                        ops = chain + [["parent", n + 1, n], ["parent", x, dest], ["parent", x, None], ["parent", x, x - 1]]
                        reads = [[]] * (len(chain) - 1) + [[d], [d], [d], [d], [d]]
                        yield {"kind": "history", "n": n + 2, "ops": ops, "cls": cls, "reads": reads}


@st.composite
def random_cases(draw):
    cls = draw(st.sampled_from(nodes.TREE_CLASSES + ["SelfLinks"]))
    if draw(st.booleans()):
        shape = draw(strategies.tree_shapes(max_nodes=40, min_nodes=3))
        return {"kind": "shape", "shape": shape, "cls": cls, "via": draw(st.sampled_from(["parent", "children"]))}
    n = draw(st.integers(2, 8))
    idx = st.integers(0, n - 1)
    op = st.one_of(
        st.tuples(st.just("parent"), idx, st.one_of(st.none(), idx)),
        st.tuples(st.just("parent"), idx, idx),
        st.tuples(st.just("children"), idx, st.lists(idx, max_size=4)),
        st.tuples(st.just("del"), idx),
    ).map(list)
    ops = draw(st.lists(op, min_size=1, max_size=25))
    case = {"kind": "history", "n": n, "ops": ops, "cls": cls}
    if draw(st.booleans()):
        case["reads"] = draw(st.lists(st.lists(idx, max_size=2), min_size=1, max_size=6))
    return case


def plan(tier, seed):
    nshards = 16
    max_nodes = 7 if tier == "quick" else 10
    examples = 150 if tier == "quick" else 2500
    tasks = [{"engine": "enum", "max_nodes": max_nodes, "index": i, "count": nshards * 2} for i in range(nshards * 2)]
    tasks += [{"engine": "hyp", "examples": examples, "seed": seed * 1000 + i} for i in range(nshards)]
    tasks += [{"engine": "sparse-chain"}]
    tasks += [{"engine": "hooked", "cls": cls, "n": n} for cls in ("HNM", "HLM") for n in (3, 4)]
    tasks += [{"engine": "wide", "width": w, "cls": c, "via": v} for w in ((300, 700) if tier == "quick" else (257, 300, 700, 2000)) for c, v in (("Node", "parent"), ("SlotLM", "children"), ("AnyNode", "children"))]
    tasks += [{"engine": "deep", "depth": d, "cls": c} for d in ((700, 1500) if tier == "quick" else (300, 700, 1500, 3000)) for c in ("Node", "SlotLM", "AnyNode")]
    tasks += [{"engine": "wide-sparse", "cls": c, "width": w, "length": 4 if tier == "quick" else 5} for c in ("SlotLM", "DictLM", "Node") for w in (9, 12)]
    tasks += [{"engine": "cross-process", "cls": c} for c in ("Node", "SlotLM", "DictLM", "AnyNode")]
    tasks += [{"engine": "deep-bushy", "factor": f, "cls": c} for f in ((0.6, 1.3) if tier == "quick" else (0.3, 0.6, 0.9, 1.3, 2.5)) for c in ("Node", "SlotLM")]
    return tasks


def run_task(task, acc):
    if task["engine"] == "hooked":
        from .. import mut

        n = task["n"]
        cases = ({"kind": "hooked", "cls": task["cls"], "state": state, "op": ["parent", x, p], "hook": hook} for state, route in mut.enum_states(n, 0, 1) if route == "parent" for x in range(n) for p in [None] + list(range(n)) for hook in ("pre_detach", "post_detach", "pre_attach", "post_attach"))
        return acc.run_enum(check_case, cases)
    if task["engine"] == "sparse-chain":
        return acc.run_enum(check_case, _sparse_chain_cases())
    if task["engine"] == "wide":
        case = {"kind": "wide", "width": task["width"], "cls": task["cls"], "via": task["via"]}
        exc = acc.evaluate(check_case, case, enumerated=False)
        if exc is not None:
            acc.add_violation(case, exc)
        return
    if task["engine"] == "wide-sparse":
        import itertools

        return acc.run_enum(check_case, ({"kind": "wide-sparse", "cls": task["cls"], "width": task["width"], "ops": list(ops)} for ops in itertools.product(WIDE_OPS, repeat=task["length"])))
    if task["engine"] == "cross-process":
        case = {"kind": "cross-process", "cls": task["cls"], "max_extra": 12}
        exc = acc.evaluate(check_case, case, enumerated=False)
        if exc is not None:
            acc.add_violation(case, exc)
        return
    if task["engine"] == "deep-bushy":
        case = {"kind": "deep-bushy", "factor": task["factor"], "cls": task["cls"]}
        exc = acc.evaluate(check_case, case, enumerated=False)
        if exc is not None:
            acc.add_violation(case, exc)
        return
    if task["engine"] == "deep":
        case = {"kind": "deep", "depth": task["depth"], "every": 97, "cls": task["cls"]}
        exc = acc.evaluate(check_case, case, enumerated=False)
        if exc is not None:
            acc.add_violation(case, exc)
        return
    if task["engine"] == "enum":
        acc.run_enum(check_case, _enum_cases(task["max_nodes"], task["index"], task["count"]))
    else:
        acc.run_hypothesis(check_case, random_cases(), task["examples"], task["seed"])


def evidence_extra(total, tier):
    return {"exhaustive_subdomain": "every node of every ordered tree shape with <= %d nodes, for Node, a slotted LightNodeMixin class and SymlinkNode (links whose targets sit elsewhere)" % (7 if tier == "quick" else 10)}
