"""C12 - DOT export declares exactly the admitted nodes and only edges between them."""
import collections
import decimal
import math
import os
import pathlib
import tempfile
import warnings

from hypothesis import strategies as st

from anytree import Node
from anytree.exporter import DotExporter, UniqueDotExporter

from .. import forest, nodes, refs, resolver_ref as rr, shapes, strategies
from ..core import Violation
from . import c06

PROP_ID = "C12"
LEVEL = "exploration"
QUICK_N, THOROUGH_N = 5, 6
RULE = (
    "cases = (shape, start node, stop set, filtered-out set, maxlevel >= 0 or None, names, exporter in {DotExporter, UniqueDotExporter, "
    "RenderTreeGraph}, optional custom nodenamefunc/nodeattrfunc/edgeattrfunc/edgetypefunc, options, indent, graph/name). The complete "
    "product start x stop subset x filtered-out subset x maxlevel is enumerated on every shape <= 4 (quick) / <= 5 (thorough) nodes for all "
    "three exporters with names containing quotes, backslashes, spaces, newlines and non-ASCII characters; Hypothesis adds trees <= 20 nodes "
    "with random names (colliding for UniqueDotExporter), custom functions returning text or None, options, indent 0-8. Non-trivial = at "
    "least one expected edge and at least two of {stop, filter_, maxlevel} remove something. Enumerated distinct by construction."
    ' Also: names that are str subclasses, equal-but-different numbers, None or contain lone surrogates; iterations aborted by an exception from any callback; nodes with 300-2500 children written with to_dotfile.'
    ' Also: positional constructor forms, GC under a long-lived UniqueDotExporter, really overlapping iterations, exports > 8192 lines, non-UTF-8 locale child interpreter, path/list names.'
    ' Also: maxlevels that are not whole numbers and falsy predicate objects, judged by one consistent reading of node and edge statements.'
    ' Rounds 11-14: tall trunks, round line counts, exotic options, bytes and text-adding names, falsy attr results, infinite maxlevel.'
)
ASSUMPTIONS = [
    "declared = what the reference pre-order of C06 yields for the same filter_/stop/maxlevel; expected edges = parent-child pairs with both ends declared, compared as a multiset (edge order is not prescribed)",
    "lines are obtained by iterating the exporter; identifiers are parsed with a quoted-string grammar written for the harness",
    "names are unique per tree for DotExporter/RenderTreeGraph (identifiers are the names); only UniqueDotExporter gets colliding names",
    "KF-C12-1: an edge to an undeclared identifier is tolerated only from a declared parent with depth in range to a child with stop(c) true and filter_(c) true",
]
NAME_ALPHABET = "abnlr \"\\\\'\n\té漢-:{}[];>"


def _link(name):
    """A SymlinkNode as tree node: its name is its target's, its position is its own (the target has a parent and a child
    elsewhere, so any structural value wrongly taken from the target shows as a wrong statement)."""
    from anytree import SymlinkNode

    target = Node(name, parent=Node("target-root"))
    Node("target-child", parent=target)
    return SymlinkNode(target)


NODE_CLASSES = {"Node": Node, "EqNode": nodes.EqNode, "FalsyNode": nodes.FalsyNode, "LenNode": nodes.LenNode, "Link": _link}


# names that are not plain strings, or whose text needs care: equal-but-different numbers, str subclasses with their own
# __str__, text that cannot be encoded (lone surrogates, as produced by the 'surrogateescape' handler for file names)
EXOTIC_NAMES = [{"float": "0.0"}, {"float": "-0.0"}, {"dec": "1.0"}, {"dec": "1.00"}, {"bool": True}, {"int": 1}, {"tag": 'q"x'}, {"tag": "plain"}, "plain", "caf\udce9", "caf\udce8", "caf?", {"float": "1e+22"}, {"none": 1}, {"winpath": 'C:\\data\\q"x'}, {"list": ["it's", 'a"b', "c\\d"]}, {"inch": "6"}, {"inch": "back\\"}, {"bytes": "plain"}, {"bytes": "caf\u00e9"}, {"bytes": "caf\u00e8"}, {"bytearray": "plainer"}]


class InchName(str):
    """A str subclass whose text form ADDS a character that needs escaping (6 -> 6"): what is written is str(name), escaped."""

    def __str__(self):
        return str.__str__(self) + '"'

    def __repr__(self):
        return "InchName(%s)" % str.__repr__(self)


def decode_name(spec):
    if not isinstance(spec, dict):
        return spec
    if "float" in spec:
        return float(spec["float"])
    if "dec" in spec:
        return decimal.Decimal(spec["dec"])
    if "bool" in spec:
        return bool(spec["bool"])
    if "int" in spec:
        return int(spec["int"])
    if "tag" in spec:
        return rr.TaggedName(spec["tag"])
    if "none" in spec:
        return None
    if "winpath" in spec:
        return pathlib.PureWindowsPath(spec["winpath"])
    if "list" in spec:
        return list(spec["list"])
    if "inch" in spec:
        return InchName(spec["inch"])
    if "bytes" in spec:
        return spec["bytes"].encode("latin-1")
    if "bytearray" in spec:
        return bytearray(spec["bytearray"].encode("latin-1"))
    raise ValueError(spec)


def exotic_names(size, offset):
    pool = EXOTIC_NAMES[offset % len(EXOTIC_NAMES):] + EXOTIC_NAMES[: offset % len(EXOTIC_NAMES)]
    return [pool[i] if i < len(pool) else "n%d" % i for i in range(size)]


def esc(text):
    out = []
    for ch in str(text):
        if ch in ('"', "\\"):
            out.append("\\")
        out.append(ch)
    return "".join(out)


def parse_quoted(line, pos):
    """Parse a double-quoted string with backslash escapes starting at line[pos]; returns (value, end)."""
    if pos >= len(line) or line[pos] != '"':
        raise Violation("syntax", "expected '\"' at column %d of %r" % (pos, line))
    out = []
    i = pos + 1
    while i < len(line):
        ch = line[i]
        if ch == "\\":
            if i + 1 >= len(line):
                raise Violation("syntax", "dangling backslash in %r" % (line,))
            out.append(line[i + 1])
            i += 2
            continue
        if ch == '"':
            return "".join(out), i + 1
        out.append(ch)
        i += 1
    raise Violation("syntax", "unterminated string in %r" % (line,))


def make_funcs(case, tree, index_of):
    """Custom functions described by the case (pure functions of the node index)."""
    funcs = {}
    spec = case.get("funcs") or {}
    if "nodename" in spec:
        funcs["nodenamefunc"] = lambda n: spec["nodename"] % index_of[id(n)] if "%" in spec["nodename"] else "%s%d" % (spec["nodename"], index_of[id(n)])
    if "nodeattr" in spec:
        # results appear verbatim - also results that are falsy without being None ('' from ",".join([]), 0, False): only None means "no attributes"
        funcs["nodeattrfunc"] = lambda n: None if index_of[id(n)] % 3 == 2 else (("", 0, False)[index_of[id(n)] % 3] if spec.get("falsy_attrs") and index_of[id(n)] % 2 else spec["nodeattr"] + str(index_of[id(n)]))
    if "edgeattr" in spec:
        funcs["edgeattrfunc"] = lambda p, c: None if index_of[id(c)] % 2 else (("", 0, False)[index_of[id(c)] % 3] if spec.get("falsy_attrs") and index_of[id(c)] % 4 == 0 else "%s%d_%d" % (spec["edgeattr"], index_of[id(p)], index_of[id(c)]))
    if "edgetype" in spec:
        funcs["edgetypefunc"] = lambda p, c: spec["edgetype"][index_of[id(c)] % len(spec["edgetype"])]
    return funcs


class FalsyCallable:
    """A predicate object with a truth value of its own that happens to be false (a callable container that is empty, a
    counter at 0): whether such an object is used or treated like 'no predicate given' is not prescribed - but node
    statements and edge statements must agree on it."""

    def __init__(self, func):
        self.func = func

    def __call__(self, node):
        return self.func(node)

    def __bool__(self):
        return False


def falsify(kwargs, case):
    if case.get("falsy_predicates"):
        for key in ("stop", "filter_"):
            if callable(kwargs.get(key)):
                kwargs[key] = FalsyCallable(kwargs[key])
    return kwargs


def readings(case, maxlevel, stop_ids, hide_ids):
    """The admission rules under which an output may be judged: exactly one, unless the case uses options whose reading is
    not prescribed (a maxlevel that is not a whole number; predicate objects that are falsy)."""
    levels = [math.floor(maxlevel), math.ceil(maxlevel)] if fractional(maxlevel) else [maxlevel]
    stops = [stop_ids, set()] if case.get("falsy_predicates") and stop_ids else [stop_ids]
    hides = [hide_ids, set()] if case.get("falsy_predicates") and hide_ids else [hide_ids]
    return [(lv, st_, hd) for lv in levels for st_ in stops for hd in hides]


def fractional(maxlevel):
    return isinstance(maxlevel, float) and maxlevel not in (float("inf"), float("-inf")) and maxlevel == maxlevel and maxlevel != int(maxlevel)


def decode_level(case):
    """{'inf': 1} in a case description stands for float('inf') ('no limit' spelled as a number; JSON has no infinity)."""
    if isinstance(case, dict) and isinstance(case.get("maxlevel"), dict):
        return dict(case, maxlevel=float("inf"))
    return case


def expected_structure(tree, start, stop_ids, hide_ids, maxlevel):
    admitted = refs.admitted_ids(start, stop_ids, maxlevel)
    declared = refs.restricted(refs.preorder(start), admitted, hide_ids)
    declared_ids = {id(n) for n in declared}
    edges = [(p, c) for p in declared for c in p.children if id(c) in declared_ids]
    # KF-C12-1 candidates: stopped, filter-true children of a declared parent whose depth is in range
    depth = refs.rel_depths(start)
    kf = [(p, c) for p in declared for c in p.children if id(c) in stop_ids and id(c) not in hide_ids and (maxlevel is None or depth[id(p)] + 1 < maxlevel)]
    return declared, edges, kf


_COMMON = ["graph", "name", "options", "indent", "nodenamefunc", "nodeattrfunc", "edgeattrfunc", "edgetypefunc", "filter_"]
POSITIONAL_ORDER = {"DotExporter": _COMMON + ["maxlevel", "stop"], "RenderTreeGraph": _COMMON + ["maxlevel", "stop"], "UniqueDotExporter": _COMMON + ["stop", "maxlevel"]}
POSITIONAL_DEFAULTS = {"graph": "digraph", "name": "tree", "indent": 4}


class CallbackBoom(Exception):
    """Raised by a user callback (filter_, stop, a naming/attribute function) in the middle of an export."""


def tripwired(kwargs, trip):
    """The same keyword arguments, every callable wrapped so that it raises CallbackBoom while trip['left'] counts down to < 0."""

    def wrap(func):
        def inner(*args):
            if trip["left"] is not None:
                trip["left"] -= 1
                if trip["left"] < 0:
                    raise CallbackBoom()
            return func(*args)

        return inner

    return {key: wrap(value) if callable(value) else value for key, value in kwargs.items()}


def aborted_iterations(exporter, trip, lines, ctx, acc, positions):
    """Iterations of a long-lived exporter that end in an exception from a user callback leave nothing behind."""
    for k in positions:
        trip["left"] = k
        try:
            list(exporter)
        except CallbackBoom:
            acc.tag("iterations_aborted_by_callback_exception")
        finally:
            trip["left"] = None
        again = list(exporter)
        if again != lines:
            raise Violation("after-aborted-iteration", "%s: after an iteration that was aborted by an exception from callback call %d the same exporter yields %r instead of %r" % (ctx, k + 1, again, lines))


def check_exporter(case, kind, tree, labels, acc):
    start = tree[case["start"]]
    index_of = {id(n): i for i, n in enumerate(tree)}
    stop_ids = {id(tree[i]) for i in case["stop"]}
    hide_ids = {id(tree[i]) for i in case["hide"]}
    maxlevel = case["maxlevel"]
    funcs = make_funcs(case, tree, index_of)
    kwargs = dict(funcs)
    _yes, _no = c06.TRUTH_STYLES[case.get("truth", 0) % 4]  # predicates are judged by truth value only
    if case["stop"]:
        kwargs["stop"] = lambda n: _yes if id(n) in stop_ids else _no
    if case["hide"]:
        kwargs["filter_"] = lambda n: _yes if id(n) not in hide_ids else _no
    if maxlevel is not None:
        kwargs["maxlevel"] = maxlevel
    for key in ("graph", "name", "options", "indent"):
        if key in case:
            kwargs[key] = case[key]
    trip = {"left": None}
    kwargs = falsify(tripwired(kwargs, trip), case)
    args = ()
    if case.get("positional"):
        # every option passed by position, in the order of the released signatures (callers written that way must keep working)
        args = tuple(kwargs.get(key, POSITIONAL_DEFAULTS.get(key)) for key in POSITIONAL_ORDER[kind])
        kwargs = {}
    if kind == "DotExporter":
        exporter = DotExporter(start, *args, **kwargs)
    elif kind == "UniqueDotExporter":
        exporter = UniqueDotExporter(start, *args, **kwargs)
    else:
        from anytree.dotexport import RenderTreeGraph

        with warnings.catch_warnings():
            warnings.simplefilter("ignore")
            exporter = RenderTreeGraph(start, *args, **kwargs)
    ctx = "%s start=%s stop=%s hide=%s maxlevel=%r shape=%s names=%r" % (kind, case["start"], case["stop"], case["hide"], maxlevel, case["shape"], case["names"])

    level = [maxlevel, stop_ids, hide_ids]

    def verify(lines, known_ident, phase):
        """A maxlevel that is not a whole number and predicate objects that are falsy have no prescribed reading (the
        statement says 'depth below maxlevel', the iterators count levels from 1; 'x or default' skips a falsy callable):
        the output must be right for ONE reading - node and edge statements have to agree on it - and no more is asked."""
        options_ = readings(case, maxlevel, stop_ids, hide_ids)
        first = None
        for reading in options_:
            level[:] = reading
            try:
                return verify_at(lines, known_ident, phase)
            except Violation as exc:
                if len(options_) == 1:
                    raise
                first = first or exc
        raise Violation(first.clause, "no single reading of maxlevel=%r / the falsy predicates explains the output: %s" % (maxlevel, first.detail))

    def verify_at(lines, known_ident, phase):
        """Complete oracle for one iteration of the exporter against the CURRENT tree and admission sets."""
        indent = " " * case.get("indent", 4)
        header = "%s %s {" % (case.get("graph", "digraph"), case.get("name", "tree"))
        if not lines or lines[0] != header:
            raise Violation("header", "%s: first line %r expected %r" % (ctx, lines[:1], header))
        if lines[-1] != "}":
            raise Violation("closing-brace", "%s: last line %r" % (ctx, lines[-1]))
        body = lines[1:-1]
        options = case.get("options") or []
        want_opts = [indent + o for o in options]
        if body[: len(options)] != want_opts:
            raise Violation("options", "%s: option lines %r expected %r" % (ctx, body[: len(options)], want_opts))
        body = body[len(options):]
        declared, edges, kf = expected_structure(tree, start, level[1], level[2], level[0])
        if len(body) < len(declared):
            raise Violation("node-statements", "%s: %d statements for %d declared nodes: %r" % (ctx, len(body), len(declared), body))
        # node statements in pre-order
        ident = {}
        by_ident = {}
        nodename = funcs.get("nodenamefunc")
        nodeattr = funcs.get("nodeattrfunc")
        for node, line in zip(declared, body):
            if not line.startswith(indent + '"'):
                raise Violation("node-statement", "%s: %r does not start with the indent and a quoted identifier" % (ctx, line))
            value, end = parse_quoted(line, len(indent))
            rest = line[end:]
            if kind == "UniqueDotExporter" and nodename is None:
                if value in by_ident:
                    raise Violation("unique-ids", "%s: identifier %r used for two nodes" % (ctx, value))
                if nodeattr is None:
                    if not (rest.startswith(" [") and rest.endswith("];")):
                        raise Violation("node-statement", "%s: %r" % (ctx, line))
                else:
                    attr = nodeattr(node)
                    if rest != (" [%s];" % attr if attr is not None else ";"):
                        raise Violation("node-attr", "%s: %r expected attr %r" % (ctx, line, attr))
            else:
                want = str(nodename(node)) if nodename else str(node.name)
                if value != want:
                    raise Violation("node-identifier", "%s: identifier decodes to %r, expected %r (line %r)" % (ctx, value, want, line))
                if line[len(indent):end] != '"%s"' % esc(want):
                    raise Violation("escaping", "%s: identifier written as %r expected %r" % (ctx, line[len(indent):end], '"%s"' % esc(want)))
                attr = nodeattr(node) if nodeattr else ('label="%s"' % (node.name,) if kind == "UniqueDotExporter" else None)
                if rest != (" [%s];" % attr if attr is not None else ";"):
                    raise Violation("node-attr", "%s: %r expected attr %r" % (ctx, line, attr))
            ident[id(node)] = line[len(indent):end]
            if known_ident.get(id(node), ident[id(node)]) != ident[id(node)]:
                raise Violation("identifier-stability", "%s [%s]: node %r was %s in an earlier iteration of the same exporter and is %s now" % (ctx, phase, node.name, known_ident[id(node)], ident[id(node)]))
            by_ident[line[len(indent):end]] = node
        if len(by_ident) != len(declared):
            raise Violation("identifier-collision", "%s: declared nodes share identifiers" % ctx)
        # edge statements
        edge_lines = body[len(declared):]
        edgeattr = funcs.get("edgeattrfunc")
        edgetype = funcs.get("edgetypefunc")
        want_edges = collections.Counter()
        for p, c in edges:
            a = edgeattr(p, c) if edgeattr else None
            t = edgetype(p, c) if edgetype else "->"
            want_edges["%s%s %s %s%s;" % (indent, ident[id(p)], t, ident[id(c)], " [%s]" % a if a is not None else "")] += 1
        got_edges = collections.Counter(edge_lines)
        missing = want_edges - got_edges
        extra = got_edges - want_edges
        if missing:
            raise Violation("missing-edge", "%s: missing edge statements %r; got %r" % (ctx, sorted(missing), edge_lines))
        if extra:
            # classify: only edges from a declared parent to a stopped (undeclared) child may be tolerated (KF-C12-1)
            per_parent = collections.Counter()
            fresh = set()
            for line, count in extra.items():
                if count != 1 and kind == "UniqueDotExporter":
                    raise Violation("extra-edge", "%s: repeated edge %r" % (ctx, line))
                if not line.startswith(indent + '"'):
                    raise Violation("extra-line", "%s: unexpected line %r" % (ctx, line))
                _, end = parse_quoted(line, len(indent))
                src = line[len(indent):end]
                nxt = line.find('"', end)
                if nxt < 0:
                    raise Violation("extra-line", "%s: unexpected line %r" % (ctx, line))
                value2, end2 = parse_quoted(line, nxt)
                dst = line[nxt:end2]
                if src not in by_ident:
                    raise Violation("undeclared-edge-source", "%s: edge %r starts at an undeclared identifier" % (ctx, line))
                parent = by_ident[src]
                if dst in by_ident:
                    raise Violation("extra-edge", "%s: unexpected edge %r between declared nodes" % (ctx, line))
                cands = [c for p, c in kf if p is parent]
                if kind == "UniqueDotExporter" and nodename is None:
                    if dst in fresh:
                        raise Violation("undeclared-edge-target", "%s: undeclared identifier %r used twice" % (ctx, dst))
                    fresh.add(dst)
                    per_parent[id(parent)] += count
                else:
                    names = [str(nodename(c)) if nodename else str(c.name) for c in cands]
                    if value2 not in names:
                        raise Violation("undeclared-edge-target", "%s: edge %r names an undeclared node that is not a stopped child of its source" % (ctx, line))
                    per_parent[id(parent)] += count
            for pid, count in per_parent.items():
                allowed = sum(1 for p, c in kf if id(p) == pid)
                if count > allowed:
                    raise Violation("undeclared-edge-target", "%s: %d edges to undeclared nodes from one parent, only %d stopped children" % (ctx, count, allowed))
            acc.known_finding("KF-C12-1", dict(case, exporters=[kind]))
        return declared, edges, ident, by_ident

    lines = list(exporter)
    declared, edges, ident, by_ident = verify(lines, {}, "first iteration")
    indent = " " * case.get("indent", 4)
    options = case.get("options") or []
    # repeated iteration gives the same lines (identifier stability)
    if list(exporter) != lines:
        raise Violation("re-iteration", "%s: second iteration differs" % ctx)
    aborted_iterations(exporter, trip, lines, ctx, acc, (0, case.get("abort_at", 2), len(lines)))
    if case.get("to_file"):
        # the configured exporter writes exactly its lines, UTF-8 encoded, one per line
        fd, path = tempfile.mkstemp(suffix=".dot", prefix="vf-c12-")
        os.close(fd)
        try:
            exporter.to_dotfile(path)
            with open(path, "rb") as fh:
                data = fh.read()
        finally:
            os.unlink(path)
        if data != "".join(line + "\n" for line in lines).encode("utf-8"):
            raise Violation("to_dotfile", "%s: file content %r, expected the lines %r" % (ctx, data, lines))
    if declared and case.get("phases", True):
        # a second iteration started while the first one is between its node statements and its edges
        it1 = iter(exporter)
        head = [next(it1) for _ in range(1 + len(options) + len(declared))]
        second = list(exporter)
        if head + list(it1) != lines or second != lines:
            raise Violation("identifier-stability", "%s: interleaved iterations of one exporter disagree" % ctx)
        # ... and two iterations that really overlap: the first has emitted its node statements, a second one is started and
        # advanced a little, the first one is finished, then the second
        it1 = iter(exporter)
        head = [next(it1) for _ in range(1 + len(options) + len(declared))]
        it2 = iter(exporter)
        part = [next(it2) for _ in range(min(2, len(lines)))]
        rest1 = list(it1)
        rest2 = list(it2)
        if head + rest1 != lines or part + rest2 != lines:
            raise Violation("overlapping-iterations", "%s: two overlapping iterations of one exporter give %r and %r instead of twice %r" % (ctx, head + rest1, part + rest2, lines))
        known = dict(ident)
        # the same exporter object after the tree has grown, and after the admitted set has shrunk
        # (stateful filter_/stop predicates are legitimate): every iteration is judged against the current state
        extra = Node("extra-first-child-%d" % len(tree))
        index_of[id(extra)] = len(tree)
        tree.append(extra)
        start.children = (extra,) + start.children
        try:
            known.update(verify(list(exporter), known, "after a first child was added")[2])
            victim = declared[-1]
            if case["hide"] and victim is not start:
                hide_ids.add(id(victim))
                verify(list(exporter), known, "after filter_ started to hide node %r" % (victim.name,))
                hide_ids.discard(id(victim))
            if case["stop"] and victim is not start:
                stop_ids.add(id(victim))
                verify(list(exporter), known, "after stop started to cut at node %r" % (victim.name,))
                stop_ids.discard(id(victim))
        finally:
            extra.parent = None
            tree.pop()
    return lines, declared, edges


LOCALE_SCRIPT = r"""
import os, sys, tempfile
from anytree import Node
from anytree.exporter import DotExporter, MermaidExporter, UniqueDotExporter
root = Node("Z\u00fcrich")
Node("\u6f22\u5b57 \"q\"", parent=Node("caf\u00e9", parent=root))
Node("\U0001f333", parent=root)
which = sys.argv[1]
exporter = {"dot": DotExporter, "uniquedot": UniqueDotExporter, "mermaid": MermaidExporter}[which](root)
lines = list(exporter)
fd, path = tempfile.mkstemp(prefix="vf-locale-")
os.close(fd)
try:
    if which == "mermaid":
        exporter.to_file(path)
        want = "```mermaid\n" + "".join(l + "\n" for l in lines) + "```"
    else:
        exporter.to_dotfile(path)
        want = "".join(l + "\n" for l in lines)
    with open(path, "rb") as fh:
        data = fh.read()
finally:
    os.unlink(path)
print("SAME" if data == want.encode("utf-8") else "DIFFERENT %r" % (data[:200],))
"""


def check_locale(case, acc):
    """to_dotfile/to_file in an interpreter whose locale encoding is NOT UTF-8 (C locale, UTF-8 mode off): the files are
    UTF-8 all the same, because the exporters name the encoding themselves."""
    import subprocess
    import sys

    from .. import core

    env = {k: v for k, v in os.environ.items() if not k.startswith(("LC_", "LANG", "PYTHON"))}
    env.update({"LC_ALL": "C", "LANG": "C", "PYTHONUTF8": "0", "PYTHONCOERCECLOCALE": "0", "PYTHONPATH": core.REPO, "PYTHONIOENCODING": "utf-8"})
    proc = subprocess.run([sys.executable, "-c", LOCALE_SCRIPT, case["which"]], env=env, stdout=subprocess.PIPE, stderr=subprocess.PIPE, text=True, timeout=120)
    out = proc.stdout.strip()
    if out != "SAME":
        raise Violation("to_dotfile" if case["which"] != "mermaid" else "to_file", "under LC_ALL=C with UTF-8 mode off the %s file is not the UTF-8 text of the exporter's lines: %s %s" % (case["which"], out, proc.stderr.strip()[-300:]))
    acc.nontrivial(True)
    acc.tag("files_written_under_a_non_utf8_locale")


def check_tall(case, acc, exporter_classes):
    """A trunk of `factor` x the interpreter's recursion limit with a small crown (the pinned exporters are recursive below
    PreOrderIter and manage about 0.99 x the limit; whatever is well inside that stays exportable), with and without
    restrictions. Node statements come in pre-order, edges fit them."""
    import re
    import sys

    depth = int(case["factor"] * sys.getrecursionlimit())
    chain = [Node("n0")]
    for i in range(1, depth):
        chain.append(Node("n%d" % i, parent=chain[-1]))
    crown = [Node("x", parent=chain[-1]), Node("y", parent=chain[-1])]
    twig = Node("z", parent=crown[0])
    everything = chain + [crown[0], twig, crown[1]]  # pre-order
    level = {id(n): i for i, n in enumerate(chain)}
    level.update({id(crown[0]): depth, id(crown[1]): depth, id(twig): depth + 1})
    for exporter_cls in exporter_classes:
        for what, kwargs, keep in (
            ("everything", {}, lambda i, n: True),
            ("maxlevel", {"maxlevel": depth - 2}, lambda i, n: i < depth - 2),
            ("filter_", {"filter_": lambda n: n.name not in ("n7", "x")}, lambda i, n: n.name not in ("n7", "x")),
            ("stop and filter_", {"stop": lambda n: n.name == "x", "filter_": lambda n: n.name != "x"}, lambda i, n: n.name not in ("x", "z")),
        ):
            lines = list(exporter_cls(chain[0], **kwargs))
            want = [n.name for n in everything if keep(level[id(n)], n)]
            body = lines[1:-1] if lines and lines[-1] == "}" else lines[1:]
            got = []
            for line in body[: len(want)]:
                m = re.search(r'"(\w+)"\]?;?$|label="(\w+)"', line)
                got.append((m.group(2) or m.group(1)) if m else line)
            if got != want:
                first = next((i for i, (a, b) in enumerate(zip(got, want)) if a != b), min(len(got), len(want)))
                raise Violation("tall-tree", "%s(%s) on a trunk of %d nodes: %d node statements instead of %d, first difference at %d" % (exporter_cls.__name__, what, depth, len(got), len(want), first))
            declared = {n.name for i, n in enumerate(everything) if n.name in want}
            expected_edges = sum(1 for n in everything if n.parent is not None and n.name in declared and n.parent.name in declared)
            if len(body) - len(want) != expected_edges:
                raise Violation("tall-tree", "%s(%s) on a trunk of %d nodes: %d edge statements instead of %d" % (exporter_cls.__name__, what, depth, len(body) - len(want), expected_edges))
    acc.nontrivial(True)
    acc.tag("tall_tree_exports")


def check_gc(case, acc, exporter_cls=None, node_re=None, edge_re=None, closing=True):
    """A long-lived UniqueDotExporter (or MermaidExporter) while nodes it has already named are detached, dropped and garbage-collected and new
    nodes are attached: identifiers stay distinct, surviving nodes keep theirs, edges refer to declared identifiers."""
    import gc
    import re

    def build():
        root = Node("r")
        kids = [Node("k%d" % i, parent=root) for i in range(case["width"])]
        Node("s", parent=kids[1])
        return root

    def parse(lines):
        ids, edges = {}, []
        for line in (lines[1:-1] if closing else lines[1:]):
            m = re.match(node_re or r'^\s*"([^"]+)" \[label="([^"]*)"\];$', line)
            if m:
                if m.group(2) in ids:
                    raise Violation("syntax", "label %r declared twice in %r" % (m.group(2), lines))
                ids[m.group(2)] = m.group(1)
                continue
            m = re.match(edge_re or r'^\s*"([^"]+)" -> "([^"]+)";$', line)
            if not m:
                raise Violation("syntax", "unexpected line %r" % (line,))
            edges.append((m.group(1), m.group(2)))
        return ids, edges

    root = build()
    exporter = (exporter_cls or UniqueDotExporter)(root)
    known = {}
    counter = 0
    for victim_index in case["victims"]:
        ids, edges = parse(list(exporter))
        if len(set(ids.values())) != len(ids):
            raise Violation("identifier-collision", "identifiers %r are not distinct (after %d nodes were dropped and replaced)" % (ids, counter))
        for label, ident in ids.items():
            if known.setdefault(label, ident) != ident:
                raise Violation("identifier-stability", "node %r was %s in an earlier export of the same exporter and is %s now" % (label, known[label], ident))
        declared = set(ids.values())
        if any(a not in declared or b not in declared for a, b in edges) or len(edges) != len(ids) - 1:
            raise Violation("missing-edge", "edges %r do not fit the declared identifiers %r" % (edges, ids))
        kids = root.children
        victim = kids[victim_index % len(kids)]
        known.pop(victim.name, None)
        for sub in victim.children:
            known.pop(sub.name, None)
        victim.parent = None
        del victim, kids
        gc.collect()
        counter += 1
        Node("new%d" % counter, parent=root.children[0])
        Node("top%d" % counter, parent=root)
    acc.nontrivial(True)
    acc.tag("exports_after_nodes_were_garbage_collected", len(case["victims"]))


def check_case(case, acc):
    case = decode_level(case)
    if case.get("kind") == "gc":
        return check_gc(case, acc)
    if case.get("kind") == "tall":
        return check_tall(case, acc, [DotExporter, UniqueDotExporter])
    if case.get("kind") == "locale":
        return check_locale(case, acc)
    names = case["names"]
    nodecls = NODE_CLASSES[case.get("cls", "Node")]
    tree = forest.build_tree(case["shape"], lambda i: nodecls(decode_name(names[i])))
    labels = forest.Labels(tree)
    before = forest.snapshot(tree, labels)
    results = {}
    for kind in case.get("exporters", ["DotExporter", "UniqueDotExporter", "RenderTreeGraph"]):
        results[kind] = check_exporter(case, kind, tree, labels, acc)
    if case.get("mutations"):
        for op in case["mutations"]:
            # exports reflect the current tree: same nodes, changed links / names
            refs.mutate_tree(tree, op)
            if len({str(n.name) for n in tree}) == len(tree) or case.get("exporters") == ["UniqueDotExporter"]:
                for kind in case.get("exporters", ["DotExporter", "UniqueDotExporter", "RenderTreeGraph"]):
                    check_exporter(case, kind, tree, labels, acc)
                acc.tag("rechecked_after_mutation")
        before = forest.snapshot(tree, labels)
    if "DotExporter" in results and "RenderTreeGraph" in results and results["DotExporter"][0] != results["RenderTreeGraph"][0]:
        raise Violation("rendertreegraph", "RenderTreeGraph lines differ from DotExporter lines")
    if case.get("to_file") and "DotExporter" in results:
        start = tree[case["start"]]
        fd, path = tempfile.mkstemp(suffix=".dot", prefix="vf-c12-")
        os.close(fd)
        try:
            DotExporter(start).to_dotfile(path)
            with open(path, "rb") as fh:
                data = fh.read().decode("utf-8")
        finally:
            os.unlink(path)
        want = "".join(line + "\n" for line in DotExporter(start))
        if data != want:
            raise Violation("to_dotfile", "file content %r expected %r" % (data, want))
    if forest.snapshot(tree, labels) != before:
        raise Violation("no-mutation", "export changed the tree")
    first = next(iter(results.values()))
    start = tree[case["start"]]
    stop_ids = {id(tree[i]) for i in case["stop"]}
    hide_ids = {id(tree[i]) for i in case["hide"]}
    admitted = refs.admitted_ids(start, stop_ids, case["maxlevel"])
    r_stop = len(admitted) < len(refs.admitted_ids(start, set(), case["maxlevel"]))
    r_level = len(admitted) < len(refs.admitted_ids(start, stop_ids, None))
    r_filter = any(i in admitted for i in hide_ids)
    acc.nontrivial(bool(first[2]) and (r_stop + r_level + r_filter >= 2))
    acc.tag("cases_with_edges", bool(first[2]))
    acc.tag("maxlevel_0", case["maxlevel"] == 0)
    acc.tag("maxlevel_not_a_whole_number", fractional(case["maxlevel"]))
    acc.tag("falsy_predicate_objects", bool(case.get("falsy_predicates")))
    acc.tag("custom_functions", bool(case.get("funcs")))


def special_names(size, scheme):
    pool = ['a"b', "c\\d", "e f", "g\nh", "é漢", 'q\\"r', "x", "\\", '"', "end\\", "a\\nb", "C:\\new\\logs\\run", "s\n```py\nprint(1)\n```", "~~~\n~"]
    return ["%s%d" % (pool[(i + scheme) % len(pool)], i) if scheme % 2 else "%d%s" % (i, pool[(i + scheme) % len(pool)]) for i in range(size)]


def _enum_cases(max_nodes, index, count):
    from .c06 import _subtree_labels

    k = 0
    for shape in shapes.trees_upto(max_nodes):
        size = shapes.shape_size(shape)
        parents = shapes.shape_to_parents(shape)
        for start in range(size):
            k += 1
            if k % count != index:
                continue
            sub = _subtree_labels(shape, start)
            depth = {start: 0}
            for idx in sub[1:]:
                depth[idx] = depth[parents[idx]] + 1
            height = max(depth.values())
            names = special_names(size, k) if k % 6 else exotic_names(size, k // 6)
            for stop in shapes.subsets(sub):
                for hide in shapes.subsets(sub):
                    for maxlevel in [None] + list(range(0, height + 3)):
                        yield {"shape": forest.to_list(shape), "names": names, "start": start, "stop": stop, "hide": hide, "maxlevel": maxlevel, "truth": k, "positional": k % 4 == 0, "cls": ("Node", "EqNode", "Link", "FalsyNode", "LenNode")[k % 5]}


def _fraction_cases(max_nodes):
    """maxlevel = 0.5, 1.5, 2.5 ...: on every small shape and start node, alone and with one hidden node (no stop: KF-C12-1)."""
    from .c06 import _subtree_labels

    k = 0
    for shape in shapes.trees_upto(max_nodes):
        size = shapes.shape_size(shape)
        for start in range(size):
            sub = _subtree_labels(shape, start)
            if len(sub) < 2:
                continue
            for half in range(0, 4):
                for hide in [[]] + [[x] for x in sub]:
                    k += 1
                    yield {"shape": forest.to_list(shape), "names": special_names(size, k), "start": start, "stop": [], "hide": hide, "maxlevel": half + 0.5, "truth": k, "positional": k % 4 == 0, "cls": "Node"}
            # nodes that share a name (DotExporter then writes the same identifier for them) and a filter_ that rejects one of
            # them: admission is about NODES - no edge to the rejected node, whatever it is called
            for x in sub[1:]:
                for y in sub:
                    if y == x:
                        continue
                    k += 1
                    scheme = ["n%d" % i for i in range(size)]
                    scheme[x] = scheme[y]  # the rejected node is called like an admitted one; the declared nodes stay distinct
                    yield {"shape": forest.to_list(shape), "names": scheme, "start": start, "stop": [], "hide": [x], "maxlevel": None, "truth": k, "positional": k % 4 == 0, "cls": "Node", "exporters": ["DotExporter", "RenderTreeGraph"], "phases": False}
            # predicate objects that are falsy: used or ignored, but the same way for node and edge statements
            for stop, hide in [([x], []) for x in sub[1:]] + [([], [x]) for x in sub] + [([x], [y]) for x in sub[1:] for y in sub if x != y]:
                k += 1
                yield {"shape": forest.to_list(shape), "names": special_names(size, k), "start": start, "stop": stop, "hide": hide, "maxlevel": None if k % 3 else 2, "truth": k, "positional": k % 4 == 0, "cls": "Node", "falsy_predicates": True}


NAME = st.text(alphabet=NAME_ALPHABET, min_size=0, max_size=4)
TOKEN = st.text(alphabet="abcXYZ_=, ", min_size=1, max_size=5)


@st.composite
def random_cases(draw, exporters=("DotExporter", "UniqueDotExporter", "RenderTreeGraph")):
    shape = draw(strategies.tree_shapes(max_nodes=20))
    size = shapes.shape_size(forest.to_tuple(shape))
    collide = draw(st.booleans())
    if collide:
        pool = draw(st.lists(NAME, min_size=1, max_size=3))
        names = [draw(st.sampled_from(pool)) for _ in range(size)]
        kinds = ["UniqueDotExporter"]
    else:
        names = ["%s%d" % (draw(NAME), i) if draw(st.booleans()) else "%d%s" % (i, draw(NAME)) for i in range(size)]
        if draw(st.integers(0, 3)) == 0:
            names = exotic_names(size, draw(st.integers(0, 15)))
        kinds = list(exporters)
    case = {
        "shape": shape,
        "names": names,
        "start": draw(st.one_of(st.just(0), st.integers(0, size - 1))),
        "stop": draw(strategies.subsets_of(size, max_size=3)),
        "hide": draw(strategies.subsets_of(size, max_size=4)),
        "maxlevel": draw(st.one_of(st.none(), st.integers(0, 6), st.integers(0, 6), st.sampled_from([{"inf": 1}, 2 ** 70, True]))),
        "truth": draw(st.integers(0, 3)),
        "positional": draw(st.integers(0, 3)) == 0,
        "exporters": kinds,
        "to_file": draw(st.integers(0, 9)) == 0 and not any(isinstance(n, str) and any(0xD800 <= ord(ch) <= 0xDFFF for ch in n) for n in names),  # lone surrogates cannot be written as UTF-8
        "mutations": draw(strategies.tree_mutations(max_ops=2)),
        "cls": draw(st.sampled_from(["Node", "Node", "EqNode", "FalsyNode", "LenNode", "Link"])),
    }
    if draw(st.booleans()):
        funcs = {}
        if draw(st.booleans()) and not collide:
            funcs["nodename"] = draw(st.sampled_from(['n"', "k\\", "node ", "é"]))
        if draw(st.booleans()):
            funcs["nodeattr"] = draw(TOKEN)
        if draw(st.booleans()):
            funcs["edgeattr"] = draw(TOKEN)
        if draw(st.booleans()):
            funcs["edgetype"] = draw(st.lists(st.sampled_from(["->", "--", "=>", "-> /*x*/"]), min_size=1, max_size=2))
        funcs["falsy_attrs"] = draw(st.booleans())
        case["funcs"] = funcs
    if draw(st.booleans()):
        case["indent"] = draw(st.integers(0, 8))
    if draw(st.booleans()):
        case["options"] = draw(st.lists(st.sampled_from(["rankdir=LR;", "node [shape=box];", 'label="x y";', "// note", "", "  ", "a=1;\nb=2;", "tail\r", "}", "{"]), max_size=3))
    if draw(st.booleans()):
        case["graph"] = draw(st.sampled_from(["graph", "digraph", "strict digraph"]))
        case["name"] = draw(st.sampled_from(["tree", "G", "my_graph"]))
    return case


def _wide_cases(widths):
    """Exports of many hundreds of lines, also written to a file (a node with several hundred children, one of them with children of its own)."""
    for width in widths:
        shape = [[] for _ in range(width)]
        shape[width // 3] = [[], [[]]]
        size = width + 4
        for maxlevel, hide in ((None, []), (2, [5, width])):
            yield {"shape": shape, "names": ["n%d" % i for i in range(size)], "start": 0, "stop": [], "hide": hide, "maxlevel": maxlevel, "phases": False, "exporters": ["DotExporter", "UniqueDotExporter"], "to_file": True, "cls": "Node"}


def _round_cases(totals):
    """Exports whose number of lines is exactly a round number (block sizes of buffered writers), written to a file."""
    for total in totals:
        for options in (["rankdir=LR;"], ["rankdir=LR;", "splines=true;", "nodesep=1;"]):
            width = (total - 2 - len(options)) // 2 + 1 - 4  # header + options + n node statements + (n - 1) edges + closing brace
            shape = [[] for _ in range(width)]
            shape[width // 3] = [[], [[]]]
            yield {"shape": shape, "names": ["n%d" % i for i in range(width + 4)], "start": 0, "stop": [], "hide": [], "maxlevel": None, "phases": False, "exporters": ["DotExporter", "UniqueDotExporter"], "to_file": True, "cls": "Node", "options": options}


def plan(tier, seed):
    nshards = 16
    max_nodes = QUICK_N if tier == "quick" else THOROUGH_N
    examples = 150 if tier == "quick" else 1200
    tasks = [{"engine": "enum", "max_nodes": max_nodes, "index": i, "count": nshards * 2} for i in range(nshards * 2)]
    tasks += [{"engine": "hyp", "examples": examples, "seed": seed * 1000 + i} for i in range(nshards)]
    tasks += [{"engine": "round", "totals": [t]} for t in ((256, 1000, 1024, 2000, 2048, 3000, 4096, 8192) if tier == "quick" else (100, 128, 256, 500, 512, 1000, 1024, 2000, 2048, 3000, 4096, 5000, 8192, 10000, 16384))]
    tasks += [{"engine": "tall", "factor": f} for f in ((0.6,) if tier == "quick" else (0.3, 0.6, 0.8))]
    tasks += [{"engine": "gc"}, {"engine": "locale", "which": ["dot", "uniquedot"]}, {"engine": "fraction", "max_nodes": 4 if tier == "quick" else 5}]
    tasks += [{"engine": "wide", "widths": [w]} for w in ((300, 700, 4400) if tier == "quick" else (257, 300, 700, 1100, 2500, 4400, 9000))]
    return tasks


def run_task(task, acc):
    if task["engine"] == "locale":
        for which in task["which"]:
            case = {"kind": "locale", "which": which}
            exc = acc.evaluate(check_case, case, enumerated=False)
            if exc is not None:
                acc.add_violation(case, exc)
        return
    if task["engine"] == "tall":
        case = {"kind": "tall", "factor": task["factor"]}
        exc = acc.evaluate(check_case, case, enumerated=False)
        if exc is not None:
            acc.add_violation(case, exc)
        return
    if task["engine"] == "gc":
        for victims in ([0], [1, 0, 2], [2, 2, 2, 0], [3, 1, 4, 1, 0], [0, 0, 0, 0]):
            case = {"kind": "gc", "width": 5, "victims": victims}
            exc = acc.evaluate(check_case, case, enumerated=False)
            if exc is not None:
                acc.add_violation(case, exc)
                break
        return
    if task["engine"] in ("wide", "round"):
        for case in (_wide_cases(task["widths"]) if task["engine"] == "wide" else _round_cases(task["totals"])):
            exc = acc.evaluate(check_case, case, enumerated=False)
            if exc is not None:
                acc.add_violation(case, exc)
                break
        return
    if task["engine"] == "fraction":
        acc.run_enum(check_case, _fraction_cases(task["max_nodes"]))
    elif task["engine"] == "enum":
        acc.run_enum(check_case, _enum_cases(task["max_nodes"], task["index"], task["count"]))
    else:
        acc.run_hypothesis(check_case, random_cases(), task["examples"], task["seed"])


def evidence_extra(total, tier):
    return {"exhaustive_subdomain": "complete product start x stop subset x filtered-out subset x maxlevel (None, 0..height+2) on every shape <= %d nodes for DotExporter, UniqueDotExporter and RenderTreeGraph" % (QUICK_N if tier == "quick" else THOROUGH_N)}
