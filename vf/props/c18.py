"""C18 - LightNodeMixin behaves identically to NodeMixin."""
import anytree
from anytree import LevelOrderGroupIter, LevelOrderIter, PostOrderIter, PreOrderIter, RenderTree, Resolver, Walker, ZigZagGroupIter, util

from .. import big, mut, nodes
from ..core import Violation

PROP_ID = "C18"
LEVEL = "exploration"
RULE = (
    "cases = one generated history (labels, arguments, hook fault plans, initial forest) applied in lock-step to a universe of a NodeMixin "
    "class and a universe of a slotted LightNodeMixin class, both with logging hooks. Enumerated: every labelled ordered forest over N <= 3 "
    "(quick) / N <= 4 (thorough) x every call with tree-node arguments x every single fault position; generated: Hypothesis histories "
    "(<= 7 nodes, <= 25 calls). After every call outcome class, forest snapshot and hook log are compared, and (except in every third generated history, which stays read-free until its end) "
    "the navigation attributes and util helpers of every node before the first and after every call; after the history every "
    "navigation attribute, util helper, the five iterators (with filter/stop/maxlevel), Walker on all pairs, Resolver.get/glob on generated "
    "paths and RenderTree rows/text are compared as label-mapped values. Non-trivial = history with >= 1 refused or vetoed call and >= 1 "
    "successful link change (enumerated single steps: the call changed a link or raised after a hook ran)."
    " Also: interrupt-like BaseExceptions among the fault plans; chains deeper than the interpreter's recursion limit (upward-looking attributes, Walker, commonancestors, four structural calls) in lock-step."
    ' Also: a class pair overriding the public children property, sparse reads, iter_path_reverse consumed step by step while nodes move.'
    ' Rounds 11-14: run-time config switch, sealed nodes, recursion band, classes overriding iter_path_reverse/__str__. Round 16: a class whose public children view hides members.'
)
ASSUMPTIONS = [
    "pure differential oracle: no reference model, the two mixins are compared with each other",
    "only tree-node arguments (NodeMixin type-checks its arguments, LightNodeMixin does not; the statement restricts itself to tree-node arguments)",
    "both classes share the same label-based __repr__ so that rendered text is comparable",
    "hooks either log, raise, or (plan 'evict') detach the first other child of the hook's parent argument; a *_children hook re-files the first listed child under another node of the universe - a hook that edits the tree is a nested structural call and must behave the same in both mixins",
]


# the two mixins are compared on ordinary classes, on classes whose instances all compare equal, and on classes that
# override the public `children` property with a reversed view (setter and deleter are the mixin's own)
PAIRS = {"plain": ("HNM", "HLM"), "eq": ("HEqNM", "HEqLM"), "rev": ("HRevNM", "HRevLM"), "seal": ("HSealNM", "HSealLM")}


def outcome(exc):
    if exc is None:
        return ["ok"]
    if isinstance(exc, (mut.Veto, mut.VetoBase)):
        return [type(exc).__name__, exc.kind, exc.label, exc.count]
    return [type(exc).__name__]


def safe(func):
    try:
        return func()
    except Exception as exc:  # noqa: BLE001 - exception classes are part of the compared behaviour
        return "raised " + type(exc).__name__


def observe(universe, labels, full=True, only=None):
    """Every read-only query, mapped to labels (full=False: the navigation attributes and helpers only)."""
    L = labels.label
    LL = labels.labels
    out = {}
    for i, node in enumerate(universe):
        if only is not None and i not in only:
            continue
        o = {}
        o["path"] = LL(node.path)
        o["ancestors"] = LL(node.ancestors)
        o["root"] = L(node.root)
        o["depth"] = node.depth
        o["height"] = node.height
        o["size"] = node.size
        o["is_root"] = node.is_root
        o["is_leaf"] = node.is_leaf
        o["siblings"] = LL(node.siblings)
        o["descendants"] = LL(node.descendants)
        o["leaves"] = LL(node.leaves)
        o["iter_path_reverse"] = LL(node.iter_path_reverse())
        o["commonancestors-1"] = safe(lambda: LL(util.commonancestors(node)))
        o["leftsibling"] = L(util.leftsibling(node))
        o["rightsibling"] = L(util.rightsibling(node))
        if not full:
            out[i] = o
            continue
        stop = lambda n: labels.label(n) % 3 == 2  # noqa: E731
        filt = lambda n: labels.label(n) % 2 == 0  # noqa: E731
        for name, it in (("pre", PreOrderIter), ("post", PostOrderIter), ("level", LevelOrderIter)):
            o[name] = LL(it(node))
            o[name + "-restricted"] = LL(it(node, filter_=filt, stop=stop, maxlevel=3))
            o[name + "-maxlevel1"] = LL(it(node, maxlevel=1))
        for name, it in (("group", LevelOrderGroupIter), ("zigzag", ZigZagGroupIter)):
            o[name] = [LL(g) for g in it(node)]
            o[name + "-restricted"] = [LL(g) for g in it(node, filter_=filt, stop=stop, maxlevel=2)]
        o["findall"] = LL(anytree.findall(node, filter_=filt))
        o["find_by_attr"] = safe(lambda: L(anytree.find_by_attr(node, "n0")))
        rows = list(RenderTree(node))
        o["render-rows"] = [[r.pre, r.fill, L(r.node)] for r in rows]
        o["render-str"] = str(RenderTree(node, style=anytree.AsciiStyle()))
        o["render-by_attr"] = RenderTree(node, maxlevel=2).by_attr("name")
        res = Resolver("name")
        relaxed = Resolver("name", relax=True)
        for pat in ("*", "**", "*/*", "../*", "n?", "**/n1", "*/..", "/n0/*", "n1/n2", "..", "**/..", "**/../*", "**/**", "*/**/.."):
            o["glob:" + pat] = safe(lambda: LL(res.glob(node, pat)))
            o["rglob:" + pat] = safe(lambda: LL(relaxed.glob(node, pat)))
        # a resolver whose path attribute no node has (every node then counts as named 'None')
        orphan = Resolver("no_such_attribute", relax=True)
        for pat in ("*", "None", "None/None", "x"):
            o["noattr-glob:" + pat] = safe(lambda: LL(orphan.glob(node, pat)))
            o["noattr-get:" + pat] = safe(lambda: L(orphan.get(node, pat)))
        for other in universe:
            o["common:%d" % L(other)] = LL(util.commonancestors(node, other))
            walk = safe(lambda: Walker().walk(node, other))
            if isinstance(walk, str):
                o["walk:%d" % L(other)] = walk
                continue
            up, common, down = walk
            o["walk:%d" % L(other)] = [LL(up), L(common), LL(down)]
            # the path the walk spells, resolved again
            abspath = "/" + "/".join(n.name for n in other.path)
            o["get-abs:%d" % L(other)] = safe(lambda: L(res.get(node, abspath)))
            rel = "/".join([".."] * len(up) + [n.name for n in down])
            o["get-rel:%d" % L(other)] = safe(lambda: L(res.get(node, rel)))
        out[i] = o
    return out


def compare_observations(obs_a, obs_b, uni_a, rec_a, when):
    if obs_a != obs_b:
        for i in obs_a:
            for key in obs_a[i]:
                if obs_a[i][key] != obs_b[i].get(key):
                    raise Violation("query:" + key.split(":")[0], "%s: node %s %s: NodeMixin %r, LightNodeMixin %r (forest %s)" % (when, i, key, obs_a[i][key], obs_b[i].get(key), mut.snapshot(uni_a, rec_a.labels)))
        raise Violation("query", "observations differ")


def observe_both(rec_a, uni_a, rec_b, uni_b, full, when, only=None):
    mut.CURRENT[0] = rec_a
    obs_a = observe(uni_a, rec_a.labels, full, only)
    mut.CURRENT[0] = rec_b
    obs_b = observe(uni_b, rec_b.labels, full, only)
    compare_observations(obs_a, obs_b, uni_a, rec_a, when)
    return obs_a


def check_deep(case, acc):
    """The upward-looking attributes and structural calls on chains deeper than the interpreter's recursion limit, in lock-step."""
    depth = big.deep_size(case.get("factor", 2))
    results = []
    for clsname in ("PlainNM", "SlotLM"):
        make = nodes.factory(clsname)
        chain = big.build_chain(make, depth, case["route"])
        index = {id(n): i for i, n in enumerate(chain)}

        def view(node):
            def one(func):
                try:
                    return func()
                except Exception as exc:  # noqa: BLE001 - exception classes are compared
                    return "raised " + type(exc).__name__

            return {
                "depth": one(lambda: node.depth),
                "root": one(lambda: index[id(node.root)]),
                "path": one(lambda: [index[id(n)] for n in node.path][-3:] + [len(node.path)]),
                "ancestors": one(lambda: len(node.ancestors)),
                "iter_path_reverse": one(lambda: sum(1 for _ in node.iter_path_reverse())),
                "is_root": one(lambda: node.is_root),
                "is_leaf": one(lambda: node.is_leaf),
                "siblings": one(lambda: [index[id(n)] for n in node.siblings]),
                "common": one(lambda: len(util.commonancestors(node, chain[depth // 3]))),
                "walk": one(lambda: [len(part) if isinstance(part, tuple) else index[id(part)] for part in Walker().walk(node, chain[depth // 3])]),
            }

        picks = [0, 1, depth // 2, depth - 2, depth - 1]
        obs = [[view(chain[i]) for i in picks]]
        outcomes = []
        for call in (
            lambda: setattr(chain[depth // 2], "parent", chain[0]),
            lambda: setattr(chain[0], "parent", chain[-1]),
            lambda: setattr(chain[-1], "children", [chain[depth // 2 - 1]]),
            lambda: delattr(chain[depth // 2 + 1], "children"),
        ):
            try:
                call()
                outcomes.append("ok")
            except Exception as exc:  # noqa: BLE001
                outcomes.append(type(exc).__name__)
            obs.append([view(chain[i]) for i in picks])
        results.append((outcomes, obs))
    (out_a, obs_a), (out_b, obs_b) = results
    if out_a != out_b:
        raise Violation("outcome", "chains of %d nodes: NodeMixin %s, LightNodeMixin %s" % (depth, out_a, out_b))
    for phase, (a, b) in enumerate(zip(obs_a, obs_b)):
        for pick, (va, vb) in enumerate(zip(a, b)):
            for key in va:
                if va[key] != vb[key]:
                    raise Violation("query:" + key, "chain of %d nodes, after %d calls, node #%d: NodeMixin %r, LightNodeMixin %r" % (depth, phase, pick, va[key], vb[key]))
    acc.nontrivial(True)
    acc.tag("deep_chain_cases")


def check_overrides(case, acc):
    """User classes that override documented public members with the same body on both mixins: iter_path_reverse() (here: a
    virtual root object is reported above the real root) and __str__ (here: it raises; the mixins word their refusals with
    repr()). Values and exception classes are the same for the two mixins."""
    from anytree import LightNodeMixin, NodeMixin

    virtual = object()

    def make(base, slotted):
        body = {"__init__": lambda self, name: setattr(self, "name", name), "__repr__": lambda self: "N(%r)" % (self.name,)}
        if slotted:
            body["__slots__"] = ("name",)
        if case["override"] == "iter_path_reverse":
            def iter_path_reverse(self):
                node = self
                while node is not None:
                    yield node
                    node = node.parent
                yield virtual

            body["iter_path_reverse"] = iter_path_reverse
        elif case["override"] == "children":
            # a public children view that leaves out hidden nodes (round 16): whatever the mixins derive from the view
            # and whatever they derive from their own list, they do it alike
            body["children"] = property(lambda self: tuple(c for c in base.children.fget(self) if c.name not in "bd"), base.children.fset, base.children.fdel)
        else:
            def boom(self):
                raise mut.ReprBoom()

            body["__str__"] = boom
        return type("Over", (base,), body)

    seen = []
    for base, slotted in ((NodeMixin, False), (LightNodeMixin, True), (LightNodeMixin, False)):
        cls = make(base, slotted)
        r, a, b, c, d = (cls(x) for x in "rabcd")
        a.parent = r
        b.parent = a
        c.parent = r
        out = []

        def attempt(func):
            try:
                return func()
            except Exception as exc:  # noqa: BLE001 - exception classes are compared
                return "raised " + type(exc).__name__

        def view():
            return [(n.name, attempt(lambda: n.depth), attempt(lambda: len(n.path)), attempt(lambda: len(n.ancestors)), attempt(lambda: n.is_root), attempt(lambda: [x.name if x is not virtual else "virtual" for x in n.iter_path_reverse()]), attempt(lambda: n.is_leaf), attempt(lambda: n.height), attempt(lambda: [x.name for x in n.children]), attempt(lambda: [x.name for x in n.leaves]), attempt(lambda: [x.name for x in n.descendants]), attempt(lambda: [x.name for x in n.siblings]), attempt(lambda: n.size)) for n in (r, a, b, c, d)]

        out.append(view())
        for call in (lambda: setattr(b, "parent", c), lambda: setattr(r, "parent", b), lambda: setattr(a, "parent", a), lambda: setattr(r, "children", [a, a]), lambda: setattr(d, "parent", b), lambda: setattr(c, "children", [r])):
            out.append(attempt(call) or "ok")
            out.append(view())
        seen.append(out)
    for other, what in ((seen[1], "slotted LightNodeMixin"), (seen[2], "LightNodeMixin")):
        if other != seen[0]:
            idx = next(i for i, (x, y) in enumerate(zip(seen[0], other)) if x != y)
            raise Violation("outcome" if isinstance(seen[0][idx], str) else "query:depth", "classes overriding %s: NodeMixin %r, %s %r (step %d)" % (case["override"], seen[0][idx], what, other[idx], idx))
    acc.nontrivial(True)
    acc.tag("classes_overriding_public_members")


def check_band(case, acc):
    """The downward-recursive attributes on chains whose length is a fraction of the interpreter's recursion limit, well
    away from the depths at which either outcome flips (height costs two frames per level, the iterators one): value or
    exception class, both mixins give the same."""
    import sys

    depth = int(case["factor"] * sys.getrecursionlimit())
    seen = []
    for clsname in ("PlainNM", "SlotLM"):
        chain = big.build_chain(nodes.factory(clsname), depth, "parent")
        twig = nodes.factory(clsname)(depth)
        twig.parent = chain[depth // 2]
        out = {}
        for key, func in (("height", lambda: chain[0].height), ("mid.height", lambda: chain[depth // 2].height), ("descendants", lambda: len(chain[0].descendants)), ("leaves", lambda: len(chain[0].leaves)), ("size", lambda: chain[1].size), ("depth", lambda: chain[-1].depth)):
            try:
                out[key] = func()
            except Exception as exc:  # noqa: BLE001 - exception classes are compared
                out[key] = "raised " + type(exc).__name__
        seen.append(out)
    for key in seen[0]:
        if seen[0][key] != seen[1][key]:
            raise Violation("query:" + key, "chain of %d nodes (%.2f x the recursion limit): NodeMixin %r, LightNodeMixin %r" % (depth, case["factor"], seen[0][key], seen[1][key]))
    acc.nontrivial(True)
    acc.tag("recursion_band_cases")


def check_case(case, acc):
    if case.get("kind") == "band":
        return check_band(case, acc)
    if case.get("kind") == "override":
        return check_overrides(case, acc)
    if case.get("flip_config"):
        # the documentation tells users to switch the consistency checks on from their own code (anytree.config.ASSERTIONS =
        # True after the import): whatever that does, it does the same for both mixins
        import anytree.config as config

        old = config.ASSERTIONS
        config.ASSERTIONS = not old
        try:
            return _check_case(case, acc)
        finally:
            config.ASSERTIONS = old
    return _check_case(case, acc)


def _check_case(case, acc):
    if case.get("kind") == "deep":
        return check_deep(case, acc)
    state = case.get("state") or mut.all_roots(case["n"])
    route = case.get("route", "parent")
    pair = PAIRS[case.get("pair", "plain")]
    rec_a, uni_a = mut.make_universe(pair[0], state, route)
    rec_b, uni_b = mut.make_universe(pair[1], state, route)
    changes = refused = 0
    # the queries are asked before the first call and after every call as well (values remembered from an earlier
    # question must not survive a later change of the tree), unless the case asks for a read-free history
    reads_between = case.get("reads_between", True)
    sparse = reads_between if isinstance(reads_between, list) else None  # per call: the few nodes that are asked
    if reads_between:
        observe_both(rec_a, uni_a, rec_b, uni_b, False, "before the first call", None if sparse is None else {x % len(uni_a) for x in sparse[0]})
    for stepno, item in enumerate(case["steps"]):
        op, plan = item["op"], item.get("plan") or {}
        results = []
        for rec, uni in ((rec_a, uni_a), (rec_b, uni_b)):
            mut.CURRENT[0] = rec
            pre = mut.snapshot(uni, rec.labels)
            rec.begin_call(plan)
            exc = mut.execute(uni, op)
            log = rec.log
            rec.begin_call(None)
            results.append((outcome(exc), mut.snapshot(uni, rec.labels), log, pre))
        (out_a, post_a, log_a, pre_a), (out_b, post_b, log_b, _) = results
        ctx = "%s plan=%s on %s" % (op, plan, pre_a)
        if out_a != out_b:
            raise Violation("outcome", "%s: NodeMixin %s, LightNodeMixin %s" % (ctx, out_a, out_b))
        if out_a == ["RecursionError"]:
            # unbounded rollback recursion (KF-C03-4): where the interpreter limit strikes depends on frame counts, not on the mixins
            acc.note("histories_cut_at_RecursionError")
            break
        if post_a != post_b:
            raise Violation("structure", "%s: NodeMixin -> %s, LightNodeMixin -> %s" % (ctx, post_a, post_b))
        if log_a != log_b:
            raise Violation("hook-log", "%s: NodeMixin %s, LightNodeMixin %s" % (ctx, log_a, log_b))
        if post_a != pre_a:
            changes += 1
        if out_a != ["ok"]:
            refused += 1
        if reads_between and stepno + 1 < len(case["steps"]):
            observe_both(rec_a, uni_a, rec_b, uni_b, False, "after call %d" % stepno, None if sparse is None else {x % len(uni_a) for x in sparse[(stepno + 1) % len(sparse)]})
    # (iterators, search, Walker, Resolver and RenderTree are code shared by both mixins and only read the attributes that
    # the lighter observation compares directly; enumerated single calls ask the full set in every fourth case)
    obs_a = observe_both(rec_a, uni_a, rec_b, uni_b, bool(case.get("full_queries", True)), "after the history")
    # a generator handed out by the library and consumed in portions while the tree changes: both mixins follow the links alike
    walks = []
    for rec, uni in ((rec_a, uni_a), (rec_b, uni_b)):
        mut.CURRENT[0] = rec
        rec.begin_call(None)
        deepest = max(range(len(uni)), key=lambda i: (len(uni[i].path), -i))
        seq = []
        it = uni[deepest].iter_path_reverse()
        for node in it:
            seq.append(rec.labels.label(node))
            if len(seq) == 1:
                try:
                    node.parent = None if len(uni) < 2 or node.parent is None else [u for u in uni if u is not node and node not in u.path][-1]
                except Exception as exc:  # noqa: BLE001
                    seq.append(type(exc).__name__)
        walks.append(seq)
    if walks[0] != walks[1]:
        raise Violation("query:iter_path_reverse", "iter_path_reverse() consumed step by step while the node just handed out is moved: NodeMixin %s, LightNodeMixin %s" % (walks[0], walks[1]))
    if len(case["steps"]) == 1:
        acc.nontrivial(changes > 0 or (refused > 0 and bool(results[0][2])))
    else:
        acc.nontrivial(changes >= 1 and refused >= 1)
    acc.tag("steps", len(case["steps"]))
    acc.tag("link_changing_steps", changes)
    acc.tag("refused_or_vetoed_steps", refused)
    acc.tag("queries_compared", sum(len(v) for v in obs_a.values()))


def plan(tier, seed):
    tasks = []
    nshards = 16
    for n in ([1, 2, 3] if tier == "quick" else [1, 2, 3, 4]):
        shards = 1 if n < 3 else (nshards if n == 3 else nshards * 4)
        for i in range(shards):
            tasks.append({"engine": "enum", "n": n, "index": i, "count": shards, "maxlen": None if n <= 3 else 2, "routes": None if n <= 3 else ["parent"]})
            if n <= 3:
                tasks.append({"engine": "enum", "pair": "eq", "n": n, "index": i, "count": shards, "maxlen": None, "routes": ["parent"]})
                if tier == "thorough" or i % 4 == 0:
                    tasks.append({"engine": "enum", "pair": "rev", "n": n, "index": i, "count": shards, "maxlen": None, "routes": ["parent"]})
    for route in ("parent", "children"):
        tasks.append({"engine": "deep", "route": route})
    for n in (2, 3):
        tasks.append({"engine": "seal", "n": n})
    tasks.append({"engine": "override"})
    tasks.append({"engine": "band", "factors": [0.3, 0.7] if tier == "quick" else [0.1, 0.2, 0.3, 0.7, 0.8, 1.3]})
    examples = 80 if tier == "quick" else 500
    for i in range(nshards):
        tasks.append({"engine": "hyp", "examples": examples, "seed": seed * 1000 + i})
    return tasks


def run_task(task, acc):
    if task["engine"] == "override":
        return acc.run_enum(check_case, ({"kind": "override", "override": o} for o in ("iter_path_reverse", "__str__", "children")))
    if task["engine"] == "band":
        for factor in task["factors"]:
            case = {"kind": "band", "factor": factor}
            exc = acc.evaluate(check_case, case, enumerated=False)
            if exc is not None:
                acc.add_violation(case, exc)
                break
        return
    if task["engine"] == "deep":
        case = {"kind": "deep", "route": task["route"]}
        exc = acc.evaluate(check_case, case, enumerated=False)
        if exc is not None:
            acc.add_violation(case, exc)
        return
    if task["engine"] == "seal":
        # one node refuses every attribute write for the duration of the call (a sealed old parent, new parent, moving node ...)
        plain = mut.enum_fault_cases("HNM", task["n"], 0, 1, fault_hooks=(), pairs=False, invalid=False, maxlen=None, routes=["parent"])
        cases = (dict(c, pair="seal", steps=[{"op": c["steps"][0]["op"], "plan": {"sealed": [label]}}, {"op": c["steps"][0]["op"], "plan": {}}]) for c in plain for label in range(task["n"]))
        return acc.run_enum(check_case, cases)
    if task["engine"] == "enum":
        cases = mut.enum_fault_cases("HNM", task["n"], task["index"], task["count"], fault_hooks=mut.HOOKS if task.get("pair", "plain") == "plain" else (), pairs=False, invalid=False, maxlen=task["maxlen"], routes=task["routes"], evict=True)
        acc.run_enum(check_case, (dict(c, pair=task.get("pair", "plain"), full_queries=(k % 4 == 0), flip_config=(k % 3 == 1)) for k, c in enumerate(cases)))
    else:
        from hypothesis import strategies as st

        strat = st.tuples(mut.history_strategy(max_nodes=7, max_steps=25, faults="all+evict", invalid=False, class_specs=["HNM"]), st.sampled_from(["plain", "plain", "eq", "rev", "seal"])).map(lambda t: dict(t[0], pair=t[1], flip_config=(len(t[0]["steps"]) % 3 == 1), reads_between=(t[0]["n"] % 3 != 0) if len(t[0]["steps"]) % 2 else [[len(t[0]["steps"]) + j, j * j] [: j % 3] for j in range(1, 6)]))
        acc.run_hypothesis(check_case, strat, task["examples"], task["seed"])


def evidence_extra(total, tier):
    return {"exhaustive_subdomain": "every labelled ordered forest over N <= %d nodes x every call with tree-node arguments x every single hook fault position, applied to both mixins" % (3 if tier == "quick" else 4)}
