"""C03 - a refused or hook-vetoed structural change leaves the whole forest untouched."""
from anytree import LoopError, TreeError

from .. import big, mut, nodes
from ..core import Violation

PROP_ID = "C03"
LEVEL = "fault_enumeration"
RULE = (
    "cases = (node class, labelled forest, build route, call history, fault plan per call). Enumerated: every labelled ordered forest "
    "over N <= 3 (quick) / N <= 4 (thorough) nodes x build routes x every structural call (all parent targets, all children sequences, "
    "deletions, non-node and non-iterable arguments) x every position at which a pre-hook (_pre_detach, _pre_attach, "
    "_pre_detach_children, _pre_attach_children) can raise: once(k) for every k, pairs (k1,k2) covering the hooks re-run by the rollback "
    "(N <= 3), every persistent single (hook,node) plan and the read-only-class plan; NodeMixin and slotted LightNodeMixin classes. "
    "Generated: Hypothesis histories (<= 7 nodes, <= 25 calls) with random pre-hook fault plans, so the failing call follows arbitrary "
    "earlier (possibly failed) calls. Non-trivial = an in-scope failing call that raised after at least one hook had been invoked, or "
    "that lists a child coming from another parent. Enumerated distinct by construction; histories hashed."
    " Also: refusals (loops, duplicates) at the bottom of chains deeper than the interpreter's recursion limit, and every call on every forest N <= 3/4 of a class that locks the tree through an override of the public parent property."
    ' Also: vetoed legal calls on classes whose repr() raises; vetoes of the attach phase after _pre_detach_children re-filed a child.'
    ' Rounds 11-14: RecursionError/MemoryError vetoes, look-alike non-nodes, text/bytes as children value.'
)
ASSUMPTIONS = [
    "in scope: the call raised TreeError/LoopError, TypeError for non-iterable children, any exception for a parent that is not a tree node (LightNodeMixin raises AttributeError there), or every hook exception that fired came from a _pre_* hook; post-hook faults are out of scope (documented: no rollback)",
    "oracle: whole-universe snapshot after the call equals the snapshot before it",
    "a deviation is tolerated only if a step model of the current rollback algorithm predicts exactly the observed exception and post-state AND tags it with one of the four open findings KF-C03-1..4; everything else is a violation",
]
KF = {"R1": "KF-C03-1", "R2": "KF-C03-2", "R3": "KF-C03-3", "R1-nested": "KF-C03-3", "R4": "KF-C03-4"}
CLASS_SPECS = ["HNM", "HLM", "HNode", "HDictLM", ["HNode", "HAnyNode", "HSymlink", "HNM"], ["HLM", "HDictLM"], "HSlotStoreNM", "HSideNM"]


def in_scope(step, family):
    exc = step.exc
    if exc is None:
        return False
    fired = [step.log[k - 1][0] for k in step.raised]
    if any(not kind.startswith("pre_") for kind in fired):
        return False
    if isinstance(exc, mut.Veto):
        return True
    if isinstance(exc, RecursionError):
        return bool(fired)
    if type(exc) in (TreeError, LoopError):
        return True
    if isinstance(exc, TypeError) and step.op[0] == "children" and isinstance(step.op[2], dict):
        return True
    if step.op[0] == "parent" and isinstance(step.op[2], dict):
        # a parent that is not a tree node is an invalid argument for every class: LightNodeMixin has no type check
        # of its own and fails with AttributeError - whatever is raised, the forest must be what it was
        return True
    return False


def classify(step):
    """Compare a deviation with the step model; returns the set of known-finding ids or raises Violation."""
    ctx = "%s plan=%s on %s -> raised %s, after=%s" % (step.op, step.plan, step.pre, type(step.exc).__name__, step.post)
    if not mut.op_is_plain(step.op):
        raise Violation("not-untouched", "invalid-argument call changed the forest: " + ctx)
    model = mut.StepModel(step.pre, step.plan)
    mexc = model.run(step.op)
    if isinstance(mexc, mut.ModelRecursion):
        if not isinstance(step.exc, RecursionError):
            raise Violation("not-untouched", "model predicts unbounded rollback recursion, real raised %s: %s" % (type(step.exc).__name__, ctx))
        return {"KF-C03-4"}
    same_exc = (type(mexc) is type(step.exc) or (isinstance(mexc, mut.Veto) and isinstance(step.exc, mut.Veto))) and (not isinstance(mexc, mut.Veto) or (mexc.kind, mexc.label, mexc.count) == (step.exc.kind, step.exc.label, step.exc.count))
    if not same_exc or model.state() != step.post:
        raise Violation("not-untouched", "forest changed by a refused call in a way that is not one of the listed findings: %s (step model: %s, %s)" % (ctx, type(mexc).__name__, model.state()))
    ids = {KF[f] for f in model.flags}
    if not ids:
        raise Violation("not-untouched", "unclassified deviation: " + ctx)
    return ids


def check_deep(case, acc):
    """Refusals at the bottom of a chain deeper than the interpreter's recursion limit leave everything as it was."""
    make = nodes.factory(case["cls"])
    depth = big.deep_size()
    chain = big.build_chain(make, depth, "parent")
    root, deep = chain[0], chain[-1]
    k1, k2, lone = make(depth), make(depth + 1), make(depth + 2)
    k1.parent = deep
    k2.parent = deep
    ctx = "%s chain of %d nodes" % (case["cls"], depth)

    def untouched(what):
        big.expect_links(deep, chain[-2], [k1, k2], "%s: after the refused %s the bottom node" % (ctx, what))
        big.expect_links(k1, deep, [], "%s: after the refused %s its first child" % (ctx, what))
        big.expect_links(k2, deep, [], "%s: after the refused %s its second child" % (ctx, what))
        big.expect_links(root, None, [chain[1]], "%s: after the refused %s the root" % (ctx, what))
        big.expect_links(lone, None, [], "%s: after the refused %s the bystander" % (ctx, what))

    for what, call, want in (
        ("deep.children = [k2, root]", lambda: setattr(deep, "children", [k2, root]), "LoopError"),
        ("deep.children = [k1, deep]", lambda: setattr(deep, "children", [k1, deep]), "LoopError"),
        ("deep.children = [k2, k2]", lambda: setattr(deep, "children", [k2, k2]), "TreeError"),
        ("root.parent = k1", lambda: setattr(root, "parent", k1), "LoopError"),
        ("deep.parent = deep", lambda: setattr(deep, "parent", deep), "LoopError"),
    ):
        out = big.outcome_of(call)
        if out != want:
            raise Violation("not-untouched", "%s: %s must be refused with %s, got %s" % (ctx, what, want, out))
        try:
            untouched(what)
        except Violation as exc:
            raise Violation("not-untouched", exc.detail)
    acc.nontrivial(True)
    acc.tag("deep_chain_cases")


def _evict_veto_cases(cls, n):
    """Children assignments (children taken only from the node itself or from roots) during which _pre_detach_children
    re-files the first child under another node, and a pre-hook of the ATTACH phase then vetoes."""
    fam = mut.family_of(cls)
    for state, route in mut.enum_states(n, 0, 1):
        if route != "parent":
            continue
        for op in mut.calls_for(n, fam, invalid=False, maxlen=min(n, 3)):
            if op[0] != "children" or not state[op[1]][1]:
                continue
            if any(state[x][0] not in (None, op[1]) for x in op[2]) or mut.spec(state, op, fam)[0] != "ok":
                continue
            base = {"cls": cls, "state": state, "route": "parent"}
            plan = {"evict": [["pre_detach_children", op[1]]]}
            log = mut.dry_log(base, op, plan)
            try:
                first = next(i for i, e in enumerate(log) if e[0] == "post_detach_children" and e[1] == op[1]) + 2
            except StopIteration:
                continue
            for k in range(first, len(log) + 1):
                if log[k - 1][0].startswith("pre_"):
                    yield {"kind": "evict-veto", "cls": cls, "state": state, "op": op, "plan": dict(plan, once=[k])}


def check_evict_veto(case, acc):
    rec, universe = mut.make_universe(case["cls"], case["state"], "parent")
    pre = mut.snapshot(universe, rec.labels)
    rec.begin_call(case["plan"])
    exc = mut.execute(universe, case["op"])
    rec.begin_call(None)
    post = mut.snapshot(universe, rec.labels)
    if exc is not None and post != pre:
        raise Violation("not-untouched", "%s plan=%s on %s was vetoed (%s) after _pre_detach_children had re-filed a child; the rollback must restore every former child: forest is now %s" % (case["op"], case["plan"], pre, type(exc).__name__, post))
    acc.nontrivial(exc is not None)
    acc.tag("vetoes_after_a_tree_editing_pre_detach_children_hook")


def check_locked(case, acc):
    """A validating class that refuses through the public `parent` attribute (a property override) instead of a hook:
    whatever structural call is made on the locked forest, if it raises, nothing has changed."""
    rec, universe = mut.make_universe("LockNM", case["state"], "parent")
    pre = mut.snapshot(universe, rec.labels)
    mut.LOCKED[0] = True
    try:
        exc = mut.execute(universe, case["op"])
    finally:
        mut.LOCKED[0] = False
    post = mut.snapshot(universe, rec.labels)
    if exc is not None and post != pre:
        raise Violation("not-untouched", "%s on the locked forest %s raised %s, yet the forest is now %s" % (case["op"], pre, type(exc).__name__, post))
    acc.nontrivial(exc is not None and any(kids for _, kids in pre))
    acc.tag("calls_on_a_locked_forest")
    acc.tag("calls_on_a_locked_forest_refused", exc is not None)


def check_case(case, acc):
    if case.get("repr_boom"):
        # the same case with node classes whose repr()/str() cannot be evaluated: nothing between a veto and the
        # rollback may need them
        mut.REPR_BOOM[0] = True
        try:
            return check_case(dict(case, repr_boom=False), acc)
        finally:
            mut.REPR_BOOM[0] = False
    if case.get("kind") == "evict-veto":
        return check_evict_veto(case, acc)
    if case.get("kind") == "locked":
        return check_locked(case, acc)
    if case.get("kind") == "deep":
        return check_deep(case, acc)
    family = mut.family_of(case["cls"])
    stats = {"inscope": 0, "after_hook": 0, "steal": 0, "deviations": 0}

    def per_step(step, rec, universe):
        if mut.REPR_BOOM[0] and step.raised and not isinstance(step.exc, (mut.Veto, RecursionError)):
            raise Violation("not-untouched", "%s plan=%s on %s: the hook's veto was replaced by %s (the library evaluated repr()/str() of a node before rolling back); forest afterwards %s" % (step.op, step.plan, step.pre, type(step.exc).__name__, step.post))
        if not in_scope(step, family):
            return
        stats["inscope"] += 1
        if step.log:
            stats["after_hook"] += 1
        op = step.op
        if op[0] == "children" and not isinstance(op[2], dict) and any(isinstance(x, int) and step.pre[x][0] not in (None, op[1]) for x in op[2]):
            stats["steal"] += 1
        acc.tag("inscope_failure:%s" % (step.exc.kind if isinstance(step.exc, mut.Veto) else type(step.exc).__name__))
        if step.post == step.pre:
            return
        stats["deviations"] += 1
        for kf_id in sorted(classify(step)):
            acc.known_finding(kf_id, {"cls": case["cls"], "n": case["n"], "state": step.pre, "route": "parent", "steps": [{"op": step.op, "plan": step.plan}]})

    mut.run_case(case, per_step)
    acc.nontrivial(stats["after_hook"] > 0 or stats["steal"] > 0)
    acc.tag("steps", len(case["steps"]))
    acc.tag("inscope_failing_calls", stats["inscope"])
    acc.tag("inscope_failing_calls_untouched", stats["inscope"] - stats["deviations"])
    acc.tag("inscope_failing_calls_deviating_as_known_findings", stats["deviations"])


def plan(tier, seed):
    tasks = []
    nshards = 16
    for n in ([1, 2, 3] if tier == "quick" else [1, 2, 3, 4]):
        shards = 1 if n < 3 else (nshards if n == 3 else nshards * 4)
        for spec in ("HNM", "HLM"):
            for i in range(shards):
                tasks.append({"engine": "enum", "n": n, "spec": spec, "index": i, "count": shards, "pairs": n <= 3, "maxlen": None if n <= 3 else 3})
    for cls in ("Node", "PlainNM", "SlotLM"):
        tasks.append({"engine": "deep", "cls": cls})
    for n in (2, 3) if tier == "quick" else (2, 3, 4):
        tasks.append({"engine": "locked", "n": n})
        for cls in ("HNM", "HLM"):
            tasks.append({"engine": "evict-veto", "n": n, "cls": cls})
    examples = 100 if tier == "quick" else 500
    for i in range(nshards):
        tasks.append({"engine": "hyp", "examples": examples, "seed": seed * 1000 + i})
    return tasks


def _no_bad_for_lm(cases, family):
    for case in cases:
        op = case["steps"][0]["op"]
        if family == "LM" and not mut.op_is_plain(op) and not (op[0] == "children" and isinstance(op[2], dict)) and op[0] != "parent":
            continue  # non-node children are only specified for NodeMixin-based classes
        yield case
        plan = case["steps"][0].get("plan") or {}
        if plan and mut.op_is_plain(op) and mut.spec(case["state"], op, family)[0] == "ok":
            # a legal call vetoed by a hook: the library has no reason to format a message, so an unreprable class changes nothing
            yield dict(case, repr_boom=True)


def run_task(task, acc):
    if task["engine"] == "evict-veto":
        return acc.run_enum(check_case, _evict_veto_cases(task["cls"], task["n"]))
    if task["engine"] == "locked":
        cases = ({"kind": "locked", "state": state, "op": op} for state, route in mut.enum_states(task["n"], 0, 1) if route == "parent" for op in mut.calls_for(task["n"], "NM", invalid=False, maxlen=min(task["n"], 3)))
        return acc.run_enum(check_case, cases)
    if task["engine"] == "deep":
        case = {"kind": "deep", "cls": task["cls"]}
        exc = acc.evaluate(check_case, case, enumerated=False)
        if exc is not None:
            acc.add_violation(case, exc)
        return
    if task["engine"] == "enum":
        cases = mut.enum_fault_cases(task["spec"], task["n"], task["index"], task["count"], fault_hooks=mut.PRE_HOOKS, pairs=task["pairs"], invalid="look" if mut.family_of(task["spec"]) == "NM" else True, maxlen=task["maxlen"])
        acc.run_enum(check_case, _no_bad_for_lm(cases, mut.family_of(task["spec"])))
    else:
        from hypothesis import strategies as st

        @st.composite
        def strat(draw):
            spec = draw(st.sampled_from(CLASS_SPECS))
            case = draw(mut.history_strategy(max_nodes=7, max_steps=25, faults="pre", invalid="look" if mut.family_of(spec) == "NM" else True, class_specs=[spec], hooks=mut.PRE_HOOKS))
            if mut.family_of(spec) == "LM":
                # non-node children are unspecified for LightNodeMixin classes; non-node parents and non-iterables stay
                case["steps"] = [s for s in case["steps"] if not (s["op"][0] == "children" and not isinstance(s["op"][2], dict) and not mut.op_is_plain(s["op"]))] or [{"op": ["del", 0], "plan": {}}]
            return case

        acc.run_hypothesis(check_case, strat(), task["examples"], task["seed"])


def evidence_extra(total, tier):
    return {
        "exhaustive_subdomain": "every labelled ordered forest over N <= %d nodes x build routes x every call x every pre-hook fault position (once; pairs for N <= 3; persistent single (hook,node); read-only plan)" % (3 if tier == "quick" else 4),
        "classification": "deviations are compared with vf/mut.py StepModel and tolerated only as KF-C03-1..4 (see known_findings.json)",
    }
