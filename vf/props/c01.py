"""C01 - parent/children links always describe one consistent forest."""
import sys

from .. import mut
from ..core import Violation

PROP_ID = "C01"
LEVEL = "fault_enumeration"
RULE = (
    "cases = (node class mix, labelled forest, build route, call history, fault plan per call, ANYTREE_ASSERTIONS setting). "
    "Enumerated: every labelled ordered forest over N <= 3 (quick) / N <= 4 (thorough) nodes x 3 build routes x every structural call "
    "(every parent target, every children sequence incl. repeats/self/ancestors, deletions, non-node and non-iterable arguments) x "
    "every position at which any of the eight hooks can raise (once; pairs up to N=3; single persistent (hook,node) pairs; read-only "
    "class plan), for a NodeMixin class, a slotted LightNodeMixin class, a mixed-family universe and two classes whose instances all compare equal (value-style __eq__/__hash__), each under both assertion settings. "
    "Stack exhaustion as a fault: 12 calls on 3 forests of 4 nodes, each executed with 3..45 (thorough: ..90) frames of stack left, for 7 classes - wherever the RecursionError strikes, the invariant holds afterwards. "
    "Legal children assignments with 300 (thorough: 1000) children under both assertion settings. "
    "Generated: Hypothesis histories (<= 7 nodes, <= 30 calls) over 13 class mixes (incl. links whose targets are nodes of the same universe) with random fault plans. Non-trivial = the call "
    "changed at least one link, or raised after at least one hook had run. Enumerated cases distinct by construction; histories hashed."
    ' Also (rounds 8-9): hooks that evict/re-file nodes or re-home the receiving node, hooks that read the whole forest, vetoes as AssertionError/TreeError/KeyError subclasses.'
    " Also: read-free histories over mixed NodeMixin/LightNodeMixin universes; hooks editing the caller's own list, returning False, raising StopIteration-style vetoes."
    ' Rounds 11-14: classes storing attributes outside the instance dict or storing copies, sealed/arming/cooperative hook classes, refile hooks (N = 4).'
)
ASSUMPTIONS = [
    "the invariant is evaluated through the public .parent/.children of every object reachable from the universe",
    "hooks raise, or edit the tree themselves (plans 'evict': detach a sibling / re-file a child), and in every second case they read the whole forest when invoked; every single fault position is exercised with an Exception and with an interrupt-like BaseException",
    "any exception class is acceptable for this property; only the link invariant and 'no internal assertion fires' are judged",
]
CLASS_SPECS = [
    "HNM",
    "HLM",
    ["HNM", "HLM"],
    ["HNode", "HAnyNode", "HSymlink", "HNM"],
    ["HLM", "HDictLM"],
    ["HNode", "HLM", "HSymlink", "HDictLM", "HAnyNode"],
    ["Node", "AnyNode", "SymlinkNode", "PlainNM"],
    ["SlotLM", "DictLM"],
    "HEqNM",
    "HEqLM",
    ["HEqNM", "HNM"],
    ["HNode", "HSymlinkU", "HAnyNode", "HSymlinkU"],
    ["Node", "SymlinkNodeU"],
    "HSlotStoreNM",
    "HSideNM",
    "HCopyNM",
    "HCopyLM",
    ["HSideNM", "HNM", "HSlotStoreNM"],
]


def check_blind(case, acc):
    """History (with hook faults) executed without any read in between; the invariant is evaluated once at the end."""
    records, universe, rec = mut.run_blind(case)
    problem = mut.consistency_problem(universe, rec.labels)
    if problem is not None:
        raise Violation("link-invariant", "after the read-free history %s: %s" % ([(s["op"], s.get("plan")) for s in case["steps"]], problem))
    for op, exc, _ in records:
        if isinstance(exc, AssertionError) and not isinstance(exc, mut.Veto):
            raise Violation("internal-assertion", "assertion fired in %s of a read-free history: %r" % (op, exc))
    acc.nontrivial(len(records) >= 2)
    acc.tag("blind_histories")


STACK_STATES = [
    [[None, [1, 2]], [0, [3]], [0, []], [1, []]],
    [[None, [1]], [0, [2]], [1, []], [None, []]],
    [[None, [1, 2, 3]], [0, []], [0, []], [0, []]],
]
STACK_OPS = [
    ["parent", 3, 2], ["parent", 1, None], ["parent", 3, 0], ["parent", 2, 3], ["parent", 0, 3],
    ["children", 0, [3, 1], "list"], ["children", 2, [1, 3], "tuple"], ["children", 1, [], "list"], ["children", 0, [2, 1, 3], "gen"], ["children", 3, [0], "list"],
    ["del", 0], ["del", 1],
]
STACK_SPECS = ["Node", "AnyNode", "PlainNM", "SlotLM", "DictLM", "HNM", "HLM"]


def check_stack(case, acc):
    """The interpreter runs out of stack somewhere inside a structural call (a recursive tree builder that catches
    RecursionError): wherever that happens, the two link updates of a step stay together."""
    rec, universe = mut.make_universe(case["cls"], case["state"], "parent")
    before = mut.snapshot(universe, rec.labels)
    old_limit = sys.getrecursionlimit()
    outcome = None
    try:
        sys.setrecursionlimit(mut._stack_depth() + case["headroom"])
        try:
            outcome = mut._execute(universe, case["op"])
        except RecursionError as exc:
            outcome = exc
    finally:
        sys.setrecursionlimit(old_limit)
    rec.begin_call(None)
    problem = mut.consistency_problem(universe, rec.labels)
    if problem is not None:
        raise Violation("link-invariant", "%s with %d frames of stack left (ended with %s) on %s: %s" % (case["op"], case["headroom"], type(outcome).__name__, before, problem))
    acc.nontrivial(isinstance(outcome, RecursionError))
    acc.tag("calls_that_ran_out_of_stack", isinstance(outcome, RecursionError))


def check_wide(case, acc):
    """Children assignments with several hundred children (legal calls: no exception of any kind, invariant afterwards)."""
    width = case["width"]
    rec, universe = mut.make_universe(case["cls"], mut.all_roots(width + 2), "parent")
    kids = list(range(2, width + 2))
    for op in (["children", 0, kids, "list"], ["children", 0, list(reversed(kids)), "tuple"], ["children", 1, kids[::2], "gen"], ["children", 0, kids[:6:2] + kids[1::2], "list"], ["del", 1], ["children", 1, kids, "list"]):
        exc = mut.execute(universe, op)
        if isinstance(exc, AssertionError) and not isinstance(exc, mut.Veto):
            raise Violation("internal-assertion", "assertion fired in a legal children assignment of %d nodes: %r" % (len(op[2]) if len(op) > 2 else 0, exc))
        if exc is not None:
            raise Violation("link-invariant", "legal children call with %d children raised %s: %s" % (len(op[2]) if len(op) > 2 else 0, type(exc).__name__, exc))
        problem = mut.consistency_problem(universe, rec.labels)
        if problem is not None:
            raise Violation("link-invariant", "after a children assignment of %d nodes: %s" % (len(op[2]) if len(op) > 2 else 0, problem))
    acc.nontrivial(True)
    acc.tag("wide_children_assignments")


def check_case(case, acc):
    if case.get("kind") == "stack":
        return check_stack(case, acc)
    if case.get("kind") == "wide":
        return check_wide(case, acc)
    if case.get("kind") == "blind":
        return check_blind(case, acc)
    changed = {"n": 0, "failed_after_hook": 0, "rollback": 0, "cross_tree": 0, "recursion": 0}

    def per_step(step, rec, universe):
        problem = mut.consistency_problem(universe, rec.labels)
        if problem is not None:
            raise Violation("link-invariant", "after %s plan=%s (raised %s): %s; before=%s after=%s" % (step.op, step.plan, type(step.exc).__name__, problem, step.pre, step.post))
        if isinstance(step.exc, AssertionError) and not isinstance(step.exc, mut.Veto) and not step.plan.get("evict") and not step.plan.get("rehome") and not step.plan.get("refile"):
            # (a hook that evicts a child which the call itself is attaching trips the optional 'all requested children are attached' self-check: the hook's doing)
            raise Violation("internal-assertion", "assertion fired in %s plan=%s: %r; before=%s" % (step.op, step.plan, step.exc, step.pre))
        if step.post != step.pre:
            changed["n"] += 1
        if step.exc is not None and step.log:
            changed["failed_after_hook"] += 1
        if step.exc is not None and any(e[0] == "pre_attach_children" for e in step.log[1:]) and sum(1 for e in step.log if e[0] == "pre_detach_children") > 1:
            changed["rollback"] += 1
        if isinstance(step.exc, RecursionError):
            changed["recursion"] += 1

    # in every second case the hooks also READ the whole forest (parent/children of every node) when they are invoked
    mut.run_case(case, per_step, take_snapshots=bool(case.get("reading_hooks")))
    acc.nontrivial(changed["n"] > 0 or changed["failed_after_hook"] > 0)
    acc.tag("steps", len(case["steps"]))
    acc.tag("steps_changing_links", changed["n"])
    acc.tag("steps_failed_after_a_hook_ran", changed["failed_after_hook"])
    acc.tag("steps_with_rollback", changed["rollback"])
    acc.tag("steps_ending_in_RecursionError", changed["recursion"])
    acc.tag("assertions_on_cases", int(case.get("assertions", 0)))


ENUM_SPECS = ["HNM", "HLM", ["HNM", "HLM"], "HEqNM", "HEqLM", ["HNode", "HSymlinkU"]]


def _with_interrupts(cases):
    """Every single-fault case once more with an interrupt-like BaseException (not an Exception) raised at the same hook call."""
    for case in cases:
        yield case
        plan = case["steps"][0].get("plan") or {}
        if list(plan) == ["once"] and len(plan["once"]) == 1:
            yield dict(case, steps=[{"op": case["steps"][0]["op"], "plan": {"base": plan["once"]}}])


def plan(tier, seed):
    tasks = []
    nshards = 16
    for assertions in (0, 1):
        for n in ([1, 2, 3] if tier == "quick" else [1, 2, 3, 4]):
            shards = 1 if n < 3 else (nshards if n == 3 else nshards * 4)
            for spec_i in range(len(ENUM_SPECS)):
                eq_class = spec_i >= 3  # equal-comparing classes: single faults, one assertion setting (quick); everything in thorough
                if eq_class and tier == "quick" and (assertions == 0 or n > 3):
                    continue
                for i in range(shards):
                    tasks.append({"engine": "enum", "n": n, "spec": spec_i, "index": i, "count": shards, "assertions": assertions, "pairs": n <= 3 and not (eq_class and tier == "quick"), "routes": None if n <= 3 else ["parent", "detour"]})
        for cls in ("HNM", "HLM"):
            for n in ((2, 3) if tier == "quick" else (2, 3, 4)):
                tasks.append({"engine": "rehome", "cls": cls, "n": n, "assertions": assertions})
        for cls in ("Node", "SlotLM", "HNM"):
            tasks.append({"engine": "wide", "cls": cls, "width": 300 if tier == "quick" else 1000, "assertions": assertions})
        for i, cls in enumerate(STACK_SPECS):
            tasks.append({"engine": "stack", "cls": cls, "assertions": assertions, "max_headroom": 45 if tier == "quick" else 90})
        examples = 50 if tier == "quick" else 250
        for i in range(nshards):
            tasks.append({"engine": "hyp", "examples": examples, "seed": seed * 1000 + i + 100 * assertions, "assertions": assertions})
            tasks.append({"engine": "blind-hyp", "examples": examples, "seed": seed * 1000 + 400 + i + 100 * assertions, "assertions": assertions})
        for spec in ("HNM", "HLM", "HNode", ["HNM", "HLM"], ["HDictLM", "HNode"], "HCopyLM", "HCopyNM", "HSideNM") if (tier == "thorough" or assertions == 1) else ():
            for n, length in ([(2, 3), (3, 2)] if tier == "quick" else [(2, 4), (3, 3)]):
                shards = 4 if (n, length) == (2, 3) else nshards
                for i in range(shards):
                    tasks.append({"engine": "blind-enum", "spec": spec, "n": n, "length": length, "index": i, "count": shards, "assertions": assertions})
    return tasks


def run_task(task, acc):
    if task["engine"] == "wide":
        case = {"kind": "wide", "cls": task["cls"], "width": task["width"], "assertions": task["assertions"]}
        exc = acc.evaluate(check_case, case, enumerated=False)
        if exc is not None:
            acc.add_violation(case, exc)
        return
    if task["engine"] == "rehome":
        # an attach hook files the receiving node itself below another node while the call is running
        fam = mut.family_of(task["cls"])
        cases = ({"cls": task["cls"], "n": task["n"], "state": state, "route": "parent", "steps": [{"op": op, "plan": {"rehome": [[hook, label]]}}], "assertions": task["assertions"], "reading_hooks": label % 2}
                 for state, route in mut.enum_states(task["n"], 0, 1) if route == "parent"
                 for op in mut.calls_for(task["n"], fam, invalid=False, maxlen=min(task["n"], 3)) if op[0] != "del"
                 for hook in ("pre_attach", "post_attach") for label in range(task["n"]))
        acc.run_enum(check_case, cases)
        # ... and a detach hook that re-files the next sibling of the leaving node under another node (needs a fourth node
        # to receive it: one more node, shorter children lists)
        n4 = min(task["n"] + 1, 4)
        cases = ({"cls": task["cls"], "n": n4, "state": state, "route": "parent", "steps": [{"op": op, "plan": {"refile": [[hook, label]]}}], "assertions": task["assertions"], "reading_hooks": label % 2}
                 for state, route in mut.enum_states(n4, 0, 1) if route == "parent"
                 for op in mut.calls_for(n4, fam, invalid=False, maxlen=1 if n4 >= 4 else 2)
                 for hook in ("pre_detach", "post_detach") for label in range(n4))
        return acc.run_enum(check_case, cases)
    if task["engine"] == "stack":
        cases = ({"kind": "stack", "cls": task["cls"], "state": state, "op": op, "headroom": h, "assertions": task["assertions"]} for state in STACK_STATES for op in STACK_OPS for h in range(3, task["max_headroom"]))
        return acc.run_enum(check_case, cases)
    if task["engine"] == "blind-enum":
        cases = mut.blind_sequences(task["spec"], task["n"], task["length"], task["index"], task["count"])
        return acc.run_enum(check_case, (dict(c, assertions=task["assertions"]) for c in cases))
    if task["engine"] == "blind-hyp":
        strat = mut.history_strategy(max_nodes=6, max_steps=20, faults="all", invalid=True, class_specs=CLASS_SPECS + [["HNM", "HDictLM"], ["SlotLM", "PlainNM"]])
        return acc.run_hypothesis(check_case, strat.map(lambda c: {"kind": "blind", "cls": c["cls"], "n": c["n"], "steps": c["steps"], "assertions": task["assertions"]}), task["examples"], task["seed"])
    if task["engine"] == "enum":
        spec = ENUM_SPECS[task["spec"]]
        maxlen = None if task["n"] <= 3 else 3
        cases = mut.enum_fault_cases(spec, task["n"], task["index"], task["count"], fault_hooks=mut.HOOKS, pairs=task["pairs"], invalid=True, maxlen=maxlen, routes=task["routes"], evict=task["n"] <= 2 or (task["n"] == 3 and task["spec"] < 2 and task["assertions"] == 1))
        acc.run_enum(check_case, (dict(c, assertions=task["assertions"], reading_hooks=i % 2) for i, c in enumerate(_with_interrupts(cases))))
    else:
        strat = mut.history_strategy(max_nodes=7, max_steps=30, faults="all+evict", invalid=True, class_specs=CLASS_SPECS)
        acc.run_hypothesis(check_case, strat.map(lambda c: dict(c, assertions=task["assertions"], reading_hooks=len(c["steps"]) % 2)), task["examples"], task["seed"])


def evidence_extra(total, tier):
    return {
        "exhaustive_subdomain": "every labelled ordered forest over N <= %d nodes x build routes x every call x every single fault position of all eight hooks (plus pairs for N <= 3, persistent single (hook,node) plans and the read-only plan), both ANYTREE_ASSERTIONS settings" % (3 if tier == "quick" else 4),
        "fault_positions": "once(k) for every k, pairs (k1,k2) incl. hooks of the rollback, persistent (hook,node), read-only plan",
    }
