"""C11 - JSON export and import round-trip every JSON-representable tree."""
import collections
import io
import json

from hypothesis import strategies as st

from anytree import AnyNode, Node
from anytree.exporter import DictExporter, JsonExporter
from anytree.importer import DictImporter, JsonImporter

from .. import forest, refs, shapes, strategies, values
from ..core import Violation
from . import c10

PROP_ID = "C11"
LEVEL = "exploration"
RULE = (
    "cases = (tree <= 20 nodes of AnyNode/Node with JSON-representable attribute values: None, bools, ints up to +-2^200, finite floats, "
    "text with non-ASCII/control/astral characters, nested lists and string-keyed dicts; json options indent in {None,0,2,'\\t'}, sort_keys, "
    "ensure_ascii, separators; JsonExporter maxlevel; optional custom DictExporter with its own attriter/childiter/maxlevel; optional "
    "custom DictImporter(nodecls=Node) and object_pairs_hook). Non-trivial = tree with >= 3 nodes, a non-default json option and at "
    "least one value with a non-ASCII/control character or a nested container. Cases hashed for distinctness."
    ' Also: documents of several MiB (one huge string attribute / 4000 nodes) under three option bundles.'
    ' Also: cls= encoder classes, handles not at offset 0, positional JsonExporter arguments.'
    ' Rounds 12-14: non-UTF text files, write-first, in-place option edits, bytes documents, write-then-export.'
)
ASSUMPTIONS = [
    "expected text = json.dumps(reference dictionary, **options) with the reference serialiser of C10; the effective maxlevel is the JsonExporter's when given, else the supplied DictExporter's",
    "NaN/Infinity, tuples and non-string keys are not JSON-representable and are not generated",
    "imported values are compared with type-strict equality (bool vs int vs float distinguished), dict subclasses from object_pairs_hook count as dicts",
]
INDENTS = {"none": None, "0": 0, "2": 2, "tab": "\t"}
SEPARATORS = {"default": None, "compact": (",", ":"), "odd": (" ,  ", "  :\t")}


def compare_tree(node, data, nodecls, sort_keys, path="root"):
    if type(node) is not nodecls:
        raise Violation("nodecls", "%s is %s" % (path, type(node).__name__))
    have = dict(c10.public(node))
    want = {k: v for k, v in data.items() if k != "children"}
    if sorted(have) != sorted(want):
        raise Violation("import-attrs", "%s: attributes %r expected %r" % (path, sorted(have), sorted(want)))
    for k in want:
        if not json_equal(have[k], want[k]):
            raise Violation("import-value", "%s: attribute %r is %r expected %r" % (path, k, have[k], want[k]))
    kids = data.get("children", [])
    if len(node.children) != len(kids):
        raise Violation("import-shape", "%s: %d children expected %d" % (path, len(node.children), len(kids)))
    for i, (c, d) in enumerate(zip(node.children, kids)):
        compare_tree(c, d, nodecls, sort_keys, "%s.%d" % (path, i))


def json_equal(a, b):
    if isinstance(a, dict) and isinstance(b, dict):
        return sorted(a.keys()) == sorted(b.keys()) and all(json_equal(a[k], b[k]) for k in a)
    if type(a) is not type(b):
        return False
    if isinstance(a, list):
        return len(a) == len(b) and all(json_equal(x, y) for x, y in zip(a, b))
    if isinstance(a, float):
        return repr(a) == repr(b)
    return a == b


class CompactEncoder(json.JSONEncoder):
    """The usual recipe for keeping the output on one line per record: encode() is overridden (iterencode() is not)."""

    def encode(self, o):
        return super(CompactEncoder, self).encode(o) + "\n"  # (a real one would re-flow the text; all that matters here is that encode() is the hook used by dumps)


class TaggingEncoder(json.JSONEncoder):
    def default(self, o):  # never needed for JSON-representable values; its presence must not matter
        return {"<unserialisable>": repr(o)}


class BoundedSink(object):
    """A write-only text file object that refuses to grow beyond a bound (a runaway writer must not fill the disk)."""

    def __init__(self, bound):
        self.parts = []
        self.size = 0
        self.bound = bound

    def write(self, text):
        self.size += len(text)
        if self.size > self.bound:
            raise Violation("write-text", "write() emitted more than %d characters for a document of %d" % (self.bound, self.bound // 2))
        self.parts.append(text)
        return len(text)

    def getvalue(self):
        return "".join(self.parts)


def check_big(case, acc):
    """Documents of several MiB (one huge string attribute / thousands of nodes): export, write, read."""
    if case["shape"] == "blob":
        root = AnyNode(id="root", blob="x\u00e9\"\\" * 400000, tail=[1, 2, {"k": None}])
        AnyNode(id="kid", parent=root, note="n" * 70000)
    else:
        root = AnyNode(id="root")
        for i in range(4000):
            kid = AnyNode(id=i, parent=root, text="payload %d " % i * 20, flags=[True, None, i])
            if i % 500 == 0:
                AnyNode(id="sub%d" % i, parent=kid)
    kwargs = dict(case["kwargs"])
    exporter = JsonExporter(**kwargs)
    ref = c10.ref_export(root, None, list, dict, None)
    expected = json.dumps(ref, **kwargs)
    if len(expected) < (1 << 20):
        raise Violation("harness", "document smaller than 1 MiB")
    text = exporter.export(root)
    if text != expected:
        raise Violation("export-text", "export() of a %d character document differs from json.dumps (first difference at %d)" % (len(expected), next((i for i, (a, b) in enumerate(zip(text, expected)) if a != b), min(len(text), len(expected)))))
    sink = BoundedSink(2 * len(expected))
    exporter.write(root, sink)
    written = sink.getvalue()
    if written != expected:
        raise Violation("write-text", "write() of a %d character document emitted %d characters; first difference at %d" % (len(expected), len(written), next((i for i, (a, b) in enumerate(zip(written, expected)) if a != b), min(len(written), len(expected)))))
    for how in ("import_", "read"):
        back = JsonImporter().import_(text) if how == "import_" else JsonImporter().read(io.StringIO(text))
        again = c10.ref_export(back, None, list, dict, None)
        if again != ref:
            raise Violation("import-value", "%s of a %d character document does not rebuild the tree" % (how, len(expected)))
    acc.nontrivial(True)
    acc.tag("documents_larger_than_1MiB")


def check_case(case, acc):
    if case.get("kind") == "big":
        return check_big(case, acc)
    nodes = c10.build(case)
    _once(case, acc, nodes)
    for op in case.get("mutations", []):
        refs.mutate_tree(nodes, op)
        _once(case, acc, nodes)
        acc.tag("rechecked_after_mutation")


def _once(case, acc, nodes):
    start = nodes[case["start"]]
    kwargs = {}
    if case["indent"] != "none":
        kwargs["indent"] = INDENTS[case["indent"]]
    if case["sort_keys"]:
        kwargs["sort_keys"] = True
    if not case["ensure_ascii"]:
        kwargs["ensure_ascii"] = False
    if case["separators"] != "default":
        kwargs["separators"] = SEPARATORS[case["separators"]]
    # documented defaults spelled out by the caller (any subset of them): must mean the same as leaving them out
    for key, default in (("indent", None), ("sort_keys", False), ("ensure_ascii", True), ("separators", None)):
        if key in (case.get("explicit_defaults") or ()):
            kwargs.setdefault(key, default)
    if case.get("encoder"):
        # json.dumps options include cls=: a JSONEncoder subclass that overrides encode() (compact short lists) or default()
        kwargs["cls"] = {"encode": CompactEncoder, "default": TaggingEncoder}[case["encoder"]]
    dx = case.get("dictexporter")
    attriter = childiter = None
    dx_maxlevel = None
    dictexporter = None
    dkw = {}
    if dx is not None:
        attriter = c10.attriter_of(dx["attriter"])
        childiter = c10.childiter_of(dx["childiter"])
        dx_maxlevel = dx["maxlevel"]
        dkw = {"childiter": childiter}
        if attriter is not None:
            dkw["attriter"] = attriter
        if dx_maxlevel is not None:
            dkw["maxlevel"] = dx_maxlevel
        dictexporter = DictExporter(**dkw)
    maxlevel = case["maxlevel"]
    effective = maxlevel if maxlevel is not None else dx_maxlevel
    before = c10.tree_state(nodes)
    exporter = JsonExporter(dictexporter=dictexporter, maxlevel=maxlevel, **kwargs)
    text = exporter.export(start)
    if JsonExporter(dictexporter, maxlevel, **kwargs).export(start) != text:
        raise Violation("export-text", "JsonExporter(dictexporter, maxlevel) passed by position exports something else")
    ref = c10.ref_export(start, attriter, childiter or list, dict, effective)
    expected = json.dumps(ref, **kwargs)
    if text != expected:
        raise Violation("export-text", "export() = %r, json.dumps(reference) = %r" % (text, expected))
    buf = io.StringIO()
    exporter.write(start, buf)
    if case.get("encoder") == "encode":
        # with an encoder class that overrides encode() only, json.dump and json.dumps themselves differ: each of the two
        # calls is compared with its own standard-library counterpart
        ref_buf = io.StringIO()
        json.dump(ref, ref_buf, **kwargs)
        expected_written = ref_buf.getvalue()
    else:
        expected_written = expected
    if buf.getvalue() != expected_written:
        raise Violation("write-text", "write() emitted %r, expected %r" % (buf.getvalue(), expected_written))
    # a document that does not start at the beginning of its file: written after a header line, read from where the caller left the handle
    framed = io.StringIO()
    framed.write("# exported tree\n")
    mark = framed.tell()
    exporter.write(start, framed)
    if framed.getvalue() != "# exported tree\n" + expected_written:
        raise Violation("write-text", "write() into a handle that already holds a header line produced %r" % (framed.getvalue(),))
    framed.seek(mark)
    # real text files in other encodings (the locale's code page on Windows, latin-1 archives, UTF-16): write() hands the
    # same text to the handle whatever its encoding is - when the text cannot be encoded, that is the caller's UnicodeEncodeError
    for encoding in ("latin-1", "cp1252", "utf-16", "ascii"):
        try:
            raw = expected_written.encode(encoding)
        except UnicodeEncodeError:
            raw = None
        wrapper = io.TextIOWrapper(io.BytesIO(), encoding=encoding, newline="")
        try:
            exporter.write(start, wrapper)
            wrapper.flush()
            got_raw = wrapper.buffer.getvalue()
        except UnicodeEncodeError:
            got_raw = None
        if raw is None:
            if got_raw is not None:
                raise Violation("write-text", "write() into a %s file succeeded although the exported text %r cannot be encoded in it; the file holds %r" % (encoding, expected_written[:200], got_raw[:200]))
        elif got_raw != raw:
            raise Violation("write-text", "write() into a %s file produced %r, the exported text encodes to %r" % (encoding, got_raw, raw))
        acc.tag("writes_into_non_utf8_text_files", raw is not None and not expected_written.isascii())
    # a NEW exporter (with a new DictExporter of its own) whose first call is write(), not export()
    fresh_dx = DictExporter(**dkw) if dx is not None else None
    fresh = JsonExporter(dictexporter=fresh_dx, maxlevel=maxlevel, **kwargs)
    first = io.StringIO()
    fresh.write(start, first)
    if first.getvalue() != expected_written:
        raise Violation("write-text", "write() as the first call on a new exporter emitted %r, expected %r" % (first.getvalue()[:300], expected_written[:300]))
    # a duck-typed dictexporter (any object with an export() method; it learns about maxlevel only through the attribute the
    # JsonExporter sets on it)
    if dx is None and not case.get("encoder"):
        class Duck:
            def export(self, node):
                return DictExporter(maxlevel=getattr(self, "maxlevel", None)).export(node)

        duck_text = JsonExporter(dictexporter=Duck(), maxlevel=maxlevel, **kwargs).export(start)
        if duck_text != text:
            raise Violation("export-text", "with a duck-typed dictexporter and maxlevel=%r export() = %r, expected %r" % (maxlevel, duck_text[:300], text[:300]))
        duck_buf = io.StringIO()
        JsonExporter(dictexporter=Duck(), maxlevel=maxlevel, **kwargs).write(start, duck_buf)
        if duck_buf.getvalue() != expected_written:
            raise Violation("write-text", "with a duck-typed dictexporter and maxlevel=%r write() emitted %r" % (maxlevel, duck_buf.getvalue()[:300]))
    # ... and the calls that follow the first write() on the same exporter (its options are still the same)
    if fresh.export(start) != text:
        raise Violation("export-text", "export() after a write() on the same exporter gives %r, before it gave %r" % (fresh.export(start)[:300], text[:300]))
    second = io.StringIO()
    fresh.write(start, second)
    if second.getvalue() != expected_written:
        raise Violation("write-text", "the second write() of an exporter emitted %r, the first %r" % (second.getvalue()[:300], expected_written[:300]))
    # a long-lived exporter whose public options are changed between two calls: kwargs edited in place, maxlevel re-assigned
    if not case.get("encoder"):
        edited = dict(kwargs)
        edited["indent"] = 1 if kwargs.get("indent") is None else None
        edited["sort_keys"] = not kwargs.get("sort_keys", False)
        fresh.kwargs["indent"] = edited["indent"]
        fresh.kwargs.update(sort_keys=edited["sort_keys"])
        want_edited = json.dumps(ref, **edited)
        if fresh.export(start) != want_edited:
            raise Violation("export-text", "after exporter.kwargs was edited in place (indent, sort_keys) export() = %r, json.dumps with the new options = %r" % (fresh.export(start)[:300], want_edited[:300]))
        again = io.StringIO()
        fresh.write(start, again)
        if again.getvalue() != want_edited:
            raise Violation("write-text", "after exporter.kwargs was edited in place write() emitted %r, expected %r" % (again.getvalue()[:300], want_edited[:300]))
        fresh.maxlevel = 1
        cut = io.StringIO()
        fresh.write(start, cut)
        want_cut = json.dumps(c10.ref_export(start, attriter, childiter or list, dict, 1), **edited)
        if cut.getvalue() != want_cut:
            raise Violation("write-text", "after exporter.maxlevel = 1, write() (before any export()) emitted %r, expected %r" % (cut.getvalue()[:300], want_cut[:300]))
        acc.tag("options_changed_on_a_living_exporter")
    if c10.tree_state(nodes) != before:
        raise Violation("export-modifies-tree", "JSON export modified the tree")
    # import
    nodecls = c10.NODECLS[case["cls"]]
    ikw = {}
    if case.get("pairs_hook"):
        ikw["object_pairs_hook"] = collections.OrderedDict
    dictimporter = DictImporter(nodecls=nodecls) if (case["cls"] != "AnyNode" or case.get("explicit_importer")) else None
    importer = JsonImporter(dictimporter=dictimporter, **ikw)
    hows = ["import_", "read", "import_", "read-after-header", "import_"]
    if not case.get("encoder"):
        try:
            text.encode("utf-8")
            # documents handed over as BYTES (json.loads / json.load detect UTF-8, UTF-16 and UTF-32 themselves), also through
            # a binary file handle
            hows += ["bytes:utf-8", "bytes:utf-16", "bytes:utf-32-le", "binary-read:utf-16-be", "bytearray:utf-8"]
        except UnicodeEncodeError:
            pass
    for how in hows:
        if how == "read-after-header":
            framed.seek(mark)
            root = importer.read(framed)
        elif ":" in how:
            form, encoding = how.split(":")
            data = text.encode(encoding)
            root = importer.read(io.BytesIO(data)) if form == "binary-read" else importer.import_(bytearray(data) if form == "bytearray" else data)
            acc.tag("documents_given_as_bytes")
        else:
            root = importer.import_(text) if how == "import_" else importer.read(io.StringIO(text))
        compare_tree(root, ref, nodecls, case["sort_keys"])
        if root.parent is not None:
            raise Violation("import-root", "imported root has a parent")
        # every import builds fresh values: editing one result in place must not show in the next import of the same text
        stack = [root]
        while stack:
            node = stack.pop()
            stack.extend(node.children)
            for key, value in list(vars(node).items()):
                if c10.is_bookkeeping(key):
                    continue
                if isinstance(value, list):
                    value.append("edited in place")
                elif isinstance(value, dict):
                    value["edited in place"] = True
    interesting = any(values.has_nonascii_or_container(v) for attrs in case["attrs"] for _, v in attrs)
    acc.nontrivial(len(nodes) >= 3 and bool(kwargs) and interesting)
    acc.tag("custom_dictexporter", dx is not None)
    acc.tag("maxlevel_given", maxlevel is not None)
    acc.tag("nonascii_or_container_values", interesting)
    acc.tag("ensure_ascii_false", not case["ensure_ascii"])


KEY = st.one_of(st.text(alphabet="abcxyz_", min_size=1, max_size=4), values.JSON_TEXT.filter(lambda k: k != ""), st.sampled_from(["_h", "id", "a b", "é", "child", "target", "target", "separator", "node"])).filter(lambda k: k not in ("parent", "children", "self", "name"))


@st.composite
def attr_list(draw, cls):
    items = draw(st.lists(st.tuples(KEY, values.json_value).map(list), max_size=4, unique_by=lambda kv: kv[0]))
    if cls == "Node":
        items.append(["name", {"t": "str", "v": draw(values.JSON_TEXT)}])
    return items


@st.composite
def random_cases(draw):
    cls = draw(st.sampled_from(["AnyNode", "AnyNode", "Node", "LenAnyNode", "EqAnyNode"]))
    shape = draw(strategies.tree_shapes(max_nodes=20))
    size = shapes.shape_size(forest.to_tuple(shape))
    case = {
        "cls": cls,
        "shape": shape,
        "attrs": [draw(attr_list(cls)) for _ in range(size)],
        "start": draw(st.one_of(st.just(0), st.integers(0, size - 1))),
        "indent": draw(st.sampled_from(sorted(INDENTS))),
        "sort_keys": draw(st.booleans()),
        "ensure_ascii": draw(st.booleans()),
        "separators": draw(st.sampled_from(sorted(SEPARATORS))),
        "maxlevel": draw(st.one_of(st.none(), st.none(), st.integers(0, 5), st.integers(0, 5), st.sampled_from([0.5, 1.5, 2.5]))),
        "pairs_hook": draw(st.booleans()),
        "explicit_importer": draw(st.booleans()),
        "encoder": draw(st.sampled_from([None, None, None, "encode", "default"])),
        "explicit_defaults": draw(st.lists(st.sampled_from(["indent", "sort_keys", "ensure_ascii", "separators"]), unique=True, max_size=4)),
        "mutations": draw(strategies.tree_mutations(max_ops=2, rename_values=st.sampled_from(["renamed", "é"]))),
    }
    if draw(st.booleans()):
        case["dictexporter"] = {
            "attriter": draw(st.sampled_from([None, "sorted", "keyfilter"])),
            "childiter": draw(st.sampled_from(["list", "reversed", "filter"])),
            "maxlevel": draw(st.one_of(st.none(), st.integers(0, 5))),
        }
    return case


def plan(tier, seed):
    nshards = 16
    examples = 200 if tier == "quick" else 1500
    tasks = [{"engine": "hyp", "examples": examples, "seed": seed * 1000 + i} for i in range(nshards)]
    tasks += [{"engine": "big", "shape": shape, "kwargs": kw} for shape in ("blob", "many") for kw in ({}, {"indent": 2, "sort_keys": True}, {"ensure_ascii": False, "separators": [",", ":"]})]
    return tasks


def run_task(task, acc):
    if task["engine"] == "big":
        case = {"kind": "big", "shape": task["shape"], "kwargs": task["kwargs"]}
        exc = acc.evaluate(check_case, case, enumerated=False)
        if exc is not None:
            acc.add_violation(case, exc)
        return
    acc.run_hypothesis(check_case, random_cases(), task["examples"], task["seed"])
