"""C02 - attach, move, detach and children assignment have exactly the specified effect."""
import gc

from hypothesis import strategies as st

from anytree import AnyNode, LoopError, Node, SymlinkNode

from .. import big, mut, nodes, shapes
from ..core import Violation

PROP_ID = "C02"
LEVEL = "exploration"
RULE = (
    "cases = (node class, labelled forest, build route, call history without hook faults) and constructor calls. Enumerated: every "
    "labelled ordered forest over N <= 4 (thorough additionally N = 5 with children sequences of length <= 2) x build routes x "
    "every parent assignment (incl. None, self, descendants, non-node values for NodeMixin classes) x every children sequence of "
    "length <= N over the labels (repeats, self, ancestors, descendants, other parents' children, own children re-ordered) x every "
    "deletion, for a NodeMixin and a slotted LightNodeMixin class; constructors of Node/AnyNode/SymlinkNode and of a user class that calls the remaining constructors of its cooperative inheritance chain after setting parent/children, with every parent= and "
    "children= argument on forests over N <= 2/3 nodes. Generated: Hypothesis histories (<= 7 nodes, <= 30 calls) over 14 class choices, read-free histories, and "
    "histories built inside a helper that hands back one or two nodes only (the rest of the tree is kept alive by its links alone; parent chain and whole tree are then read from the kept node). "
    "Non-trivial = a successful call that changes at least one link, or a refusal. Enumerated distinct by construction; histories hashed."
    ' Also: legal calls on classes whose repr() raises; every parent assignment on forests N <= 4 with a hook that evicts a sibling (closed-form expectation); children from generators with side effects on the same node.'
    ' Also: look-alike non-nodes (node class instead of instance, stub with node-like attributes).'
    ' Rounds 11-14: constructor run again on attached nodes, hooks reading constructor keywords, refused effectful generators, text/bytes as children value.'
)
ASSUMPTIONS = [
    "oracle = closed-form post-state and refusal predicate written from the statement (vf/mut.py spec), compared on the whole universe",
    "homogeneous families only: NodeMixin-based and LightNodeMixin-based universes are never mixed (cross-family attaches raise AttributeError; the statement quantifies over each family)",
    "non-node arguments are generated for NodeMixin-based classes only (the statement prescribes TreeError only there)",
]
CLASS_SPECS = ["HNM", "HLM", "Node", "AnyNode", "SymlinkNode", "PlainNM", "SlotLM", "DictLM", ["Node", "AnyNode", "SymlinkNode", "PlainNM"], ["SlotLM", "DictLM"], ["Node", "SymlinkNodeU"], ["AnyNode", "SymlinkNodeU", "SymlinkNodeU"], "HEqNM", "HEqLM", "HSlotStoreNM", "HSideNM", "HCopyNM", "HCopyLM"]
class CostedAny(AnyNode):
    """An AnyNode subclass whose attach hooks read an attribute that was given to the constructor as a keyword (a budget
    check, a log line): `AnyNode(parent=p, cost=4)` behaves like `n = AnyNode(cost=4); n.parent = p`."""

    def _pre_attach(self, parent):
        self.__dict__["seen_in_pre_attach"] = self.cost

    def _post_attach(self, parent):
        self.__dict__["seen_in_post_attach"] = self.cost

    def _pre_attach_children(self, children):
        self.__dict__["seen_in_pre_attach_children"] = self.cost


class CostedNode(Node):
    def _pre_attach(self, parent):
        self.__dict__["seen_in_pre_attach"] = (self.name, self.cost)

    def _post_attach_children(self, children):
        self.__dict__["seen_in_post_attach_children"] = (self.name, self.cost)


CTORS = {"CostedAny": lambda **kw: CostedAny(name="new", cost=4, **kw), "CostedNode": lambda **kw: CostedNode("new", cost=4, **kw), "Node": lambda **kw: Node("new", **kw), "AnyNode": lambda **kw: AnyNode(name="new", **kw), "SymlinkNode": lambda **kw: SymlinkNode(Node("t"), **kw), "LateSuperNM": lambda **kw: nodes.LateSuperNM("new", **kw)}


def describe(op, state):
    return "%s on %s" % (op, state)


def check_blind(case, acc):
    """Read-free history: outcomes of every call and the final forest vs the closed-form model."""
    family = mut.family_of(case["cls"])
    records, universe, rec = mut.run_blind(case)
    state = mut.all_roots(case["n"])
    ops = [s["op"] for s in case["steps"]]
    changed = refused = 0
    comparable = True
    for op, exc, _ in records:
        verdict, new = mut.spec(state, op, family)
        ctx = "%s on model state %s (history without intermediate reads: %s)" % (op, state, ops)
        if verdict == "ok":
            if exc is not None:
                raise Violation("spurious-refusal", "%s raised %s: %s" % (ctx, type(exc).__name__, exc))
            changed += new != state
            state = new
        else:
            if exc is None:
                raise Violation("missing-refusal", "%s must raise %s but succeeded" % (ctx, new))
            if type(exc).__name__ != new:
                raise Violation("refusal-class", "%s must raise %s, raised %s" % (ctx, new, type(exc).__name__))
            refused += 1
            if op[0] == "children" and new == "LoopError":
                comparable = False  # stolen children may be stranded (KF-C03-3): model state unknown from here
                break
    if comparable:
        final = mut.snapshot(universe, rec.labels)
        if final != state:
            raise Violation("effect", "history %s (no intermediate reads) ends in %s, closed-form model %s" % (ops, final, state))
    acc.nontrivial(changed >= 1 and len(records) >= 2)
    acc.tag("blind_histories")
    acc.tag("steps", len(records))


OWNERLESS_CLASSES = ["Node", "AnyNode", "PlainNM", "SlotLM", "DictLM", "SymlinkNode"]


def _ownerless_build(case):
    """Run the successful calls of a history in a scope of its own and hand back only the kept nodes (and the model state)."""
    make = nodes.factory(case["cls"])
    family = "LM" if case["cls"] in ("SlotLM", "DictLM") else "NM"
    universe = [make(i) for i in range(case["n"])]
    state = mut.all_roots(case["n"])
    for op in case["ops"]:
        verdict, new = mut.spec(state, op, family)
        if verdict != "ok":
            continue  # refused calls are judged elsewhere; here only the links that successful calls leave behind
        exc = mut.execute(universe, op)
        if exc is not None:
            problem = "%s on %s raised %s: %s" % (op, state, type(exc).__name__, exc)
            del exc
            return None, problem
        state = new
    return [universe[i % case["n"]] for i in case["keep"]], state


def check_ownerless(case, acc):
    """The program keeps references to a few nodes only (a helper built the tree and returned one node): every link
    made by the calls is still there - a node keeps its parent and its children although nobody else holds them."""
    kept, state = _ownerless_build(case)
    if kept is None:
        raise Violation("spurious-refusal", state)
    gc.collect()
    keep = [i % case["n"] for i in case["keep"]]
    nontrivial = False
    for label, node in zip(keep, kept):
        chain = [label]
        while state[chain[-1]][0] is not None:
            chain.append(state[chain[-1]][0])
        got = []
        cur = node
        while cur is not None and len(got) <= case["n"]:
            got.append(int(cur.name))
            top = cur
            cur = cur.parent
        if got != chain:
            raise Violation("effect", "history %s, only nodes %s kept: the parent chain of node %d is %s, model %s" % (case["ops"], keep, label, got, chain))

        def shape(n):
            return [int(n.name), [shape(c) for c in n.children]]

        def model_shape(i):
            return [i, [model_shape(c) for c in state[i][1]]]

        if shape(top) != model_shape(chain[-1]):
            raise Violation("effect", "history %s, only nodes %s kept: the tree of node %d is %s, model %s" % (case["ops"], keep, label, shape(top), model_shape(chain[-1])))
        if chain[-1] not in keep and len(chain) >= 2:
            nontrivial = True
    acc.nontrivial(nontrivial)
    acc.tag("histories_with_few_nodes_kept_alive")
    acc.tag("kept_node_below_an_unreferenced_root", nontrivial)


def check_evict(case, acc):
    """A legal parent assignment during which one of the moving node's own hooks detaches the first other child of the
    hook's parent argument ('the newcomer evicts a sibling'): the eviction and the assignment both have their specified effect."""
    family = mut.family_of(case["cls"])
    rec, universe = mut.make_universe(case["cls"], case["state"], "parent")
    pre = mut.snapshot(universe, rec.labels)
    op, hook = case["op"], case["hook"]
    x, p = op[1], op[2]
    q = pre[x][0]
    verdict, plain = mut.spec(pre, op, family)
    if verdict != "ok":
        return
    fires = plain != pre and ((hook in ("pre_detach", "post_detach") and q is not None) or (hook in ("pre_attach", "post_attach") and p is not None))
    expected = plain
    if fires:
        arg = q if hook.endswith("detach") else p
        victim = next((c for c in pre[arg][1] if c != x), None)
        if victim is not None:
            _, after_evict = mut.spec(pre, ["parent", victim, None], family)
            verdict2, expected = mut.spec(after_evict, op, family)
            if verdict2 != "ok":
                return
    rec.begin_call({"evict": [[hook, x]]})
    exc = mut.execute(universe, op)
    rec.begin_call(None)
    post = mut.snapshot(universe, rec.labels)
    if exc is not None and not isinstance(exc, AssertionError):
        raise Violation("spurious-refusal", "%s on %s with a %s hook that evicts a sibling raised %s: %s" % (op, pre, hook, type(exc).__name__, exc))
    if post != expected:
        raise Violation("effect", "%s on %s with a %s hook that evicts the first other child of its parent argument: expected %s got %s" % (op, pre, hook, expected, post))
    acc.nontrivial(fires)
    acc.tag("calls_with_an_evicting_hook")


def check_effectful(case, acc):
    """n.children = xs where xs is a lazily evaluated generator whose evaluation itself attaches new nodes to n (a 'sync the
    children with this name list' helper that re-uses existing children and creates the missing ones with parent=n):
    afterwards n.children == tuple(xs), in that order."""
    cls = {"Node": Node, "AnyNode": lambda name, **kw: AnyNode(name=name, **kw), "SlotLM": nodes.SlotLM, "PlainNM": nodes.PlainNM, "DictLM": nodes.DictLM}[case["cls"]]
    n = cls("n")
    old = [cls("old%d" % i, parent=n) for i in range(case["old"])]
    made = []

    def wanted():
        for token in case["order"]:
            if isinstance(token, int):
                yield old[token]
            else:
                fresh = cls(token, parent=n)
                made.append(fresh)
                yield fresh

    n.children = wanted()
    expect = []
    it = iter(made)
    for token in case["order"]:
        expect.append(old[token] if isinstance(token, int) else next(it))
    got = n.children
    if len(got) != len(expect) or any(a is not b for a, b in zip(got, expect)):
        raise Violation("effect", "%s: children assigned from a generator that creates nodes with parent=n on the fly: order %s, got %s" % (case["cls"], case["order"], [c.name for c in got]))
    for node in old:
        if (node.parent is n) != any(node is e for e in expect):
            raise Violation("effect", "%s: former child %s has the wrong parent after the assignment" % (case["cls"], node.name))
    # ... and a REFUSED assignment from such a generator: evaluating xs detaches one child of n (user code, not the library),
    # then xs names n itself. The call is refused with LoopError and n keeps the children it had when the assignment
    # proper began - the node that user code had detached is not named by the call and is not put back
    m = cls("m")
    kids = [cls("k%d" % i, parent=m) for i in range(3)]

    def refusing():
        kids[0].parent = None
        yield kids[2]
        yield m

    try:
        m.children = refusing()
        raise Violation("missing-refusal", "%s: children = (k2, m itself) was accepted" % case["cls"])
    except LoopError:
        pass
    got = m.children
    if len(got) != 2 or got[0] is not kids[1] or got[1] is not kids[2] or kids[0].parent is not None:
        raise Violation("effect", "%s: after a refused children assignment whose generator had detached k0: m.children = %s, k0.parent = %r (expected (k1, k2) and None)" % (case["cls"], [c.name for c in got], kids[0].parent))
    if case["cls"] in ("Node", "AnyNode"):
        # constructor arguments behave like the assignments: parent first, THEN the children iterable is evaluated
        make = (lambda name, **kw: Node(name, **kw)) if case["cls"] == "Node" else (lambda name, **kw: AnyNode(name=name, **kw))
        p = make("p")
        a, b = make("a", parent=p), make("b", parent=p)
        def lazily():  # (a generator FUNCTION: a generator expression would evaluate its outermost iterable at once)
            for sibling in p.children[-1].siblings:
                yield sibling

        x = make("x", parent=p, children=lazily())
        want_p, want_x = [x], [a, b]
        if [id(c) for c in p.children] != [id(c) for c in want_p] or [id(c) for c in x.children] != [id(c) for c in want_x]:
            raise Violation("ctor-effect", "%s(parent=p, children=<generator reading p.children[-1].siblings>): p has %s, the new node has %s; the assignments x.parent = p; x.children = <generator> give p(x(a, b))" % (case["cls"], [c.name for c in p.children], [c.name for c in x.children]))
    acc.nontrivial(True)
    acc.tag("children_from_a_generator_with_side_effects")


def check_deep(case, acc):
    """Structural calls at the bottom of a chain that is deeper than the interpreter's recursion limit: the loop check
    and the link updates walk parent chains iteratively, so the calls have exactly the specified effect there too."""
    make = nodes.factory(case["cls"])
    depth = big.deep_size()
    chain = big.build_chain(make, depth, case["route"])
    root, bottom = chain[0], chain[-1]
    for i in (0, 1, depth // 2, depth - 2, depth - 1):
        big.expect_links(chain[i], chain[i - 1] if i else None, [chain[i + 1]] if i + 1 < depth else [], "chain of %d nodes built by %s, node %d" % (depth, case["route"], i))
    fresh = [make(depth + k) for k in range(4)]
    ctx = "%s chain of %d nodes (%s)" % (case["cls"], depth, case["route"])
    # attach below the bottom
    out = big.outcome_of(lambda: setattr(fresh[0], "parent", bottom))
    if out is not None:
        raise Violation("spurious-refusal", "%s: attaching a new leaf at the bottom raised %s" % (ctx, out))
    big.expect_links(bottom, chain[-2], [fresh[0]], ctx + " after attaching a leaf at the bottom")
    # children assignment at the bottom (keeps one, adds two)
    out = big.outcome_of(lambda: setattr(bottom, "children", [fresh[1], fresh[0], fresh[2]]))
    if out is not None:
        raise Violation("spurious-refusal", "%s: children assignment at the bottom raised %s" % (ctx, out))
    big.expect_links(bottom, chain[-2], [fresh[1], fresh[0], fresh[2]], ctx + " after a children assignment at the bottom")
    # constructor with parent= where the class has one
    if case["cls"] in ("Node", "AnyNode"):
        try:
            extra = Node("ctor-leaf", parent=fresh[2]) if case["cls"] == "Node" else AnyNode(name="ctor-leaf", parent=fresh[2])
        except RecursionError:
            raise Violation("spurious-refusal", "%s: constructing a node with parent= at the bottom raised RecursionError" % ctx)
        big.expect_links(fresh[2], bottom, [extra], ctx + " after constructing a node with parent=")
    # loops must still be refused, with the right class, and change nothing
    for what, call in (
        ("root.parent = bottom", lambda: setattr(root, "parent", bottom)),
        ("bottom.children = [root]", lambda: setattr(bottom, "children", [root])),
        ("middle.parent = leaf below it", lambda: setattr(chain[depth // 2], "parent", fresh[1])),
    ):
        out = big.outcome_of(call)
        if out != "LoopError":
            raise Violation("refusal-class", "%s: %s must raise LoopError, got %s" % (ctx, what, out))
    big.expect_links(root, None, [chain[1]], ctx + " after refused loops")
    # move the lower half up to the root, then detach it
    mid = chain[depth // 2]
    out = big.outcome_of(lambda: setattr(mid, "parent", root))
    if out is not None:
        raise Violation("spurious-refusal", "%s: moving the lower half below the root raised %s" % (ctx, out))
    big.expect_links(root, None, [chain[1], mid], ctx + " after moving the lower half below the root")
    big.expect_links(chain[depth // 2 - 1], chain[depth // 2 - 2], [], ctx + " after moving the lower half away")
    acc.nontrivial(True)
    acc.tag("deep_chain_cases")


def check_case(case, acc):
    if case.get("kind") == "evict":
        return check_evict(case, acc)
    if case.get("kind") == "effectful":
        return check_effectful(case, acc)
    if case.get("repr_boom"):
        # the same case with node classes whose repr()/str() cannot be evaluated: a legal call never needs them
        mut.REPR_BOOM[0] = True
        try:
            return check_case(dict(case, repr_boom=False), acc)
        finally:
            mut.REPR_BOOM[0] = False
    if case.get("kind") == "deep":
        return check_deep(case, acc)
    if case.get("kind") == "ownerless":
        return check_ownerless(case, acc)
    if case.get("kind") == "blind":
        return check_blind(case, acc)
    if case.get("kind") == "construct":
        return check_construct(case, acc)
    family = mut.family_of(case["cls"])
    stats = {"changed": 0, "refused": 0, "steal": 0, "reorder": 0, "move_between_subtrees": 0}

    def per_step(step, rec, universe):
        op = step.op
        verdict, new = mut.spec(step.pre, op, family)
        if verdict == "unspecified":
            acc.note("unspecified_argument_skipped")
            return
        if verdict == "ok":
            if step.exc is not None:
                raise Violation("spurious-refusal", "%s raised %s: %s" % (describe(op, step.pre), type(step.exc).__name__, step.exc))
            if step.post != new:
                raise Violation("effect", "%s expected %s got %s" % (describe(op, step.pre), new, step.post))
            if new != step.pre:
                stats["changed"] += 1
                if op[0] == "children":
                    xs = op[2]
                    if any(step.pre[x][0] not in (None, op[1]) for x in xs):
                        stats["steal"] += 1
                    if sorted(xs) == sorted(step.pre[op[1]][1]) and xs != step.pre[op[1]][1]:
                        stats["reorder"] += 1
                elif op[0] == "parent" and op[2] is not None and step.pre[op[1]][0] is not None and len(step.pre[step.pre[op[1]][0]][1]) > 1:
                    stats["move_between_subtrees"] += 1
        else:
            if step.exc is None:
                raise Violation("missing-refusal", "%s must raise %s but succeeded; after=%s" % (describe(op, step.pre), new, step.post))
            if type(step.exc).__name__ != new:
                raise Violation("refusal-class", "%s must raise %s, raised %s: %s" % (describe(op, step.pre), new, type(step.exc).__name__, step.exc))
            stats["refused"] += 1

    mut.run_case(case, per_step)
    acc.nontrivial(stats["changed"] > 0 or stats["refused"] > 0)
    acc.tag("steps", len(case["steps"]))
    acc.tag("steps_changing_links", stats["changed"])
    acc.tag("steps_refused", stats["refused"])
    acc.tag("children_lists_stealing_from_another_parent", stats["steal"])
    acc.tag("reorderings_of_own_children", stats["reorder"])
    acc.tag("moves_leaving_siblings_behind", stats["move_between_subtrees"])


def check_construct(case, acc):
    cls = case["cls"]
    rec, universe = mut.make_universe({"CostedAny": "AnyNode", "CostedNode": "Node"}.get(cls, cls), case["state"], case.get("route", "parent"))
    n = len(universe)
    pre = mut.snapshot(universe, rec.labels)
    family = "NM"
    kwargs = {}
    if "parent" in case:
        kwargs["parent"] = mut.resolve(universe, case["parent"])
    children = case.get("children")
    if children is not None:
        seq = [mut.resolve(universe, c) for c in children]
        kwargs["children"] = {"list": seq, "tuple": tuple(seq), "gen": (x for x in seq)}[case.get("form", "list")]
    # expected: bare node, then parent assignment, then (if children is truthy) children assignment
    reinit = case.get("reinit")
    if reinit is None:
        state = mut.copy_state(pre) + [[None, []]]
        who = n
    else:
        # the constructor runs (again) on a node that is already part of the forest - explicit re-initialisation, a class
        # whose __new__ recycles objects: parent=/children= still behave like the assignments, parent=None detaches
        state = mut.copy_state(pre)
        who = reinit
    verdict1, after_parent = mut.spec(state, ["parent", who, case.get("parent", None)], family)
    expect_exc = None
    expected = None
    if verdict1 == "raise":
        expect_exc = after_parent
    else:
        expected = after_parent
        truthy = bool(children) if case.get("form") != "gen" else children is not None  # a generator object is always truthy
        if children is not None and truthy:
            verdict2, after_children = mut.spec(after_parent, ["children", who, list(children)], family)
            if verdict2 == "raise":
                expect_exc = after_children
            else:
                expected = after_children
    try:
        if reinit is None:
            new = CTORS[cls](**kwargs)
        else:
            new = universe[reinit]
            if cls == "AnyNode":
                AnyNode.__init__(new, name="again", **kwargs)
            else:
                type(new).__init__(new, "again", **kwargs)
        exc = None
    except Exception as e:  # noqa: BLE001
        new, exc = None, e
    ctx = "%s(parent=%r, children=%r) on %s" % (cls, case.get("parent", "<absent>"), children, pre)
    if expect_exc is None:
        if exc is not None:
            raise Violation("ctor-spurious-refusal", "%s raised %s: %s" % (ctx, type(exc).__name__, exc))
        if reinit is None:
            rec.labels.add(new, n)
        post = mut.snapshot(universe + ([new] if reinit is None else []), rec.labels)
        if post != expected:
            raise Violation("ctor-effect", "%s expected %s got %s" % (ctx, expected, post))
    else:
        if exc is None:
            raise Violation("ctor-missing-refusal", "%s must raise %s" % (ctx, expect_exc))
        if type(exc).__name__ != expect_exc:
            raise Violation("ctor-refusal-class", "%s must raise %s, raised %s: %s" % (ctx, expect_exc, type(exc).__name__, exc))
        if verdict1 == "ok" and case.get("parent") is not None and reinit is None:
            # the parent assignment preceded the refused children assignment and stays done
            holder = universe[case["parent"]]
            extra = [c for c in holder.children if not rec.labels.known(c)]
            if len(extra) != 1 or extra[0].parent is not holder:
                raise Violation("ctor-parent-step", "%s: the half-built node should be the last child of its parent" % ctx)
    problem = mut.consistency_problem(universe, rec.labels)
    if problem:
        raise Violation("ctor-consistency", "%s: %s" % (ctx, problem))
    acc.nontrivial(case.get("parent") is not None or bool(children))
    acc.tag("constructor_cases")
    acc.tag("constructor_run_again_on_an_attached_node", reinit is not None)
    acc.tag("constructor_refusals", expect_exc is not None)


def _ctor_cases(n, index, count):
    k = 0
    for cls in sorted(CTORS):
        for state, route in mut.enum_states(n, 0, 1):
            if route == "detour":
                continue
            labels = list(range(n))
            for parent in ["<absent>", None] + labels + [{"bad": "int"}, {"bad": "zero"}, {"bad": "empty-str"}, {"bad": "false"}, {"bad": "empty-tuple"}] + mut.LOOKALIKES:
                for children in [None, []] + [s for s in shapes.sequences(labels, min(n, 2)) if s] + [[{"bad": "str"}], [{"bad": "class"}], [{"bad": "stub"}]]:
                    k += 1
                    if k % count != index:
                        continue
                    case = {"kind": "construct", "cls": cls, "state": state, "route": route, "children": children, "form": ["list", "tuple", "gen"][k % 3]}
                    if parent != "<absent>":
                        case["parent"] = parent
                    yield case
                    if cls in ("Node", "AnyNode", "LateSuperNM") and not isinstance(parent, dict) and not any(isinstance(c, dict) for c in children or []):
                        for again in labels:
                            yield dict(case, reinit=again)


def plan(tier, seed):
    tasks = []
    nshards = 16
    sizes = [1, 2, 3, 4] if tier == "quick" else [1, 2, 3, 4, 5]
    for n in sizes:
        shards = 1 if n < 3 else (nshards if n == 3 else nshards * 4)
        for spec in ("HNM", "SlotLM") if n >= 4 else ("HNM", "HLM", "Node", "SlotLM", ["Node", "SymlinkNodeU"], "HEqLM"):
            for i in range(shards):
                routes = ["parent"] if (n == 4 and tier == "quick") or n == 5 else None
                tasks.append({"engine": "enum", "n": n, "spec": spec, "index": i, "count": shards, "maxlen": None if n <= 4 else 2, "routes": routes})
    for n in ([0, 1, 2] if tier == "quick" else [0, 1, 2, 3]):
        shards = 1 if n < 2 else nshards
        for i in range(shards):
            tasks.append({"engine": "ctor", "n": n, "index": i, "count": shards})
    examples = 150 if tier == "quick" else 800
    for i in range(nshards):
        tasks.append({"engine": "hyp", "examples": examples, "seed": seed * 1000 + i})
        tasks.append({"engine": "blind-hyp", "examples": examples, "seed": seed * 1000 + 300 + i})
        if i % 4 == 0:
            tasks.append({"engine": "ownerless-hyp", "examples": examples, "seed": seed * 1000 + 600 + i})
    for cls in ("Node", "AnyNode", "PlainNM", "SlotLM"):
        for route in ("parent", "children"):
            tasks.append({"engine": "deep", "cls": cls, "route": route})
    for cls in ("HNM", "HLM"):
        for n in (2, 3, 4):
            tasks.append({"engine": "evict", "cls": cls, "n": n})
    tasks.append({"engine": "effectful"})
    for spec in ("Node", "SlotLM", "AnyNode", "SymlinkNode"):
        for n, length in ([(2, 3), (3, 2)] if tier == "quick" else [(2, 4), (3, 3)]):
            shards = 4 if (n, length) == (2, 3) else nshards
            for i in range(shards):
                tasks.append({"engine": "blind-enum", "spec": spec, "n": n, "length": length, "index": i, "count": shards})
    return tasks


def _plain_only(cases, family, spec=None):
    for case in cases:
        op = case["steps"][0]["op"]
        if op[0] == "children" and isinstance(op[2], dict):
            continue  # non-iterable children: not part of this property's statement (see C03)
        if family == "LM" and not mut.op_is_plain(op):
            continue
        yield case
        if spec in ("HNM", "HLM") and mut.op_is_plain(op) and mut.spec(case["state"], op, family)[0] == "ok":
            yield dict(case, repr_boom=True)


@st.composite
def random_cases(draw):
    spec = draw(st.sampled_from(CLASS_SPECS))
    family = mut.family_of(spec)
    case = draw(mut.history_strategy(max_nodes=7, max_steps=30, faults="none", invalid=("look" if family == "NM" else False), class_specs=[spec]))
    case["steps"] = [s for s in case["steps"] if not (s["op"][0] == "children" and isinstance(s["op"][2], dict))] or [{"op": ["del", 0], "plan": {}}]
    return case


def run_task(task, acc):
    if task["engine"] == "effectful":
        orders = [[0, "x"], ["x", 0], [1, "x", "y", 0], ["x", 1, "y"], [0, 1, "x"], ["x", "y"], [1, "x"], [2, "x", 0, "y", 1]]
        cases = ({"kind": "effectful", "cls": cls, "old": 3, "order": order} for cls in ("Node", "AnyNode", "SlotLM", "PlainNM", "DictLM") for order in orders)
        return acc.run_enum(check_case, cases)
    if task["engine"] == "evict":
        n = task["n"]
        cases = ({"kind": "evict", "cls": task["cls"], "state": state, "op": ["parent", x, p], "hook": hook} for state, route in mut.enum_states(n, 0, 1) if route == "parent" for x in range(n) for p in [None] + list(range(n)) for hook in ("pre_detach", "post_detach", "pre_attach", "post_attach"))
        return acc.run_enum(check_case, cases)
    if task["engine"] == "deep":
        case = {"kind": "deep", "cls": task["cls"], "route": task["route"]}
        exc = acc.evaluate(check_case, case, enumerated=False)
        if exc is not None:
            acc.add_violation(case, exc)
        return
    if task["engine"] == "ownerless-hyp":
        @st.composite
        def ownerless(draw):
            cls = draw(st.sampled_from(OWNERLESS_CLASSES))
            hist = draw(mut.history_strategy(max_nodes=7, max_steps=15, faults="none", invalid=False, class_specs=["HNM"]))
            keep = draw(st.lists(st.integers(0, 6), min_size=1, max_size=2))
            return {"kind": "ownerless", "cls": cls, "n": hist["n"], "ops": [s["op"] for s in hist["steps"]], "keep": keep}

        return acc.run_hypothesis(check_case, ownerless(), task["examples"], task["seed"])
    if task["engine"] == "blind-enum":
        return acc.run_enum(check_case, mut.blind_sequences(task["spec"], task["n"], task["length"], task["index"], task["count"]))
    if task["engine"] == "blind-hyp":
        @st.composite
        def blind(draw):
            spec = draw(st.sampled_from(CLASS_SPECS))
            hist = draw(mut.history_strategy(max_nodes=6, max_steps=20, faults="none", invalid=False, class_specs=[spec]))
            return {"kind": "blind", "cls": spec, "n": hist["n"], "steps": [{"op": s["op"]} for s in hist["steps"]]}

        return acc.run_hypothesis(check_case, blind(), task["examples"], task["seed"])
    if task["engine"] == "enum":
        family = mut.family_of(task["spec"])
        cases = mut.enum_fault_cases(task["spec"], task["n"], task["index"], task["count"], invalid="look" if mut.family_of(task["spec"]) == "NM" else True, maxlen=task["maxlen"], routes=task.get("routes"))
        acc.run_enum(check_case, _plain_only(cases, family, task["spec"] if isinstance(task["spec"], str) else None))
    elif task["engine"] == "ctor":
        acc.run_enum(check_case, _ctor_cases(task["n"], task["index"], task["count"]))
    else:
        acc.run_hypothesis(check_case, random_cases(), task["examples"], task["seed"])


def evidence_extra(total, tier):
    return {"exhaustive_subdomain": "every labelled ordered forest over N <= 4 nodes (N <= 3: 3 build routes; N = 4: %s) x every structural call with tree-node arguments (plus non-node arguments for the NodeMixin class)%s" % ("1 build route" if tier == "quick" else "3 build routes", "" if tier == "quick" else "; N = 5 with children sequences of length <= 2")}
