"""C13 - Mermaid export declares exactly the admitted nodes and only edges between them."""
import collections
import math
import os
import re
import tempfile

from hypothesis import strategies as st

from anytree import Node
from anytree.exporter import MermaidExporter

from .. import forest, refs, shapes, strategies
from ..core import Violation
from . import c06
from .c12 import check_gc, check_tall, decode_level, check_locale, NAME, NODE_CLASSES, TOKEN, decode_name, exotic_names, aborted_iterations, esc, expected_structure, falsify, fractional, readings, special_names, tripwired

PROP_ID = "C13"
LEVEL = "exploration"
QUICK_N, THOROUGH_N = 5, 6
RULE = (
    "cases = (shape, start node, stop set, filtered-out set, maxlevel >= 0 or None, names, optional custom nodenamefunc/nodefunc/edgefunc, "
    "options, indent, graph/name). The complete product start x stop subset x filtered-out subset x maxlevel is enumerated on every shape "
    "<= 5 (quick) / <= 6 (thorough) nodes with names containing quotes, backslashes, newlines and non-ASCII characters; Hypothesis adds "
    "trees <= 20 nodes with random (also colliding) names, custom functions, options, indent 0-8 and to_file. Non-trivial = at least one "
    "expected edge and at least two of {stop, filter_, maxlevel} remove something. Enumerated distinct by construction."
    ' Also: the exotic names of C12; iterations aborted by an exception from any callback; nodes with 300-2500 children written with to_file.'
    ' Also: positional constructor form, GC under a long-lived exporter, really overlapping iterations, non-UTF-8 locale child interpreter.'
    ' Also: maxlevels that are not whole numbers and falsy predicate objects, judged by one consistent reading of node and edge lines.'
    ' Rounds 11-14: tall trunks, round line counts, exotic options, predicates changed mid-iteration, exporter.node re-pointed.'
)
ASSUMPTIONS = [
    "declared = reference pre-order of C06 for the same filter_/stop/maxlevel; expected edge lines = indent + id(parent) + edgefunc + id(child) for every parent-child pair with both ends declared, compared as a multiset",
    "default identifiers are read off the node lines (the i-th node line belongs to the i-th declared node) and must be plain identifier tokens",
]


def check_case(case, acc):
    case = decode_level(case)
    if case.get("kind") == "locale":
        return check_locale(case, acc)
    if case.get("kind") == "tall":
        return check_tall(case, acc, [MermaidExporter])
    if case.get("kind") == "gc":
        return check_gc(case, acc, exporter_cls=MermaidExporter, node_re=r'^(\w+)\["([^"]*)"\]$', edge_re=r'^(\w+)-->(\w+)$', closing=False)
    names = case["names"]
    nodecls = NODE_CLASSES[case.get("cls", "Node")]
    tree = forest.build_tree(case["shape"], lambda i: nodecls(decode_name(names[i])))
    labels = forest.Labels(tree)
    _once(case, acc, tree, labels)
    for op in case.get("mutations", []):
        refs.mutate_tree(tree, op)
        _once(case, acc, tree, labels)
        acc.tag("rechecked_after_mutation")


def _once(case, acc, tree, labels):
    names = case["names"]
    before = forest.snapshot(tree, labels)
    index_of = {id(n): i for i, n in enumerate(tree)}
    start = tree[case["start"]]
    stop_ids = {id(tree[i]) for i in case["stop"]}
    hide_ids = {id(tree[i]) for i in case["hide"]}
    maxlevel = case["maxlevel"]
    spec = case.get("funcs") or {}
    kwargs = {}
    nodename = nodefunc = edgefunc = None
    if "nodename" in spec:
        nodename = lambda n: "%s%d" % (spec["nodename"], index_of[id(n)])  # noqa: E731
        kwargs["nodenamefunc"] = nodename
    if "node" in spec:
        # a custom function may leave some nodes as bare identifiers (empty result): third entry m > 0 = every m-th node
        nodefunc = lambda n: "" if len(spec["node"]) > 2 and spec["node"][2] and index_of[id(n)] % spec["node"][2] == 0 else "%s%d%s" % (spec["node"][0], index_of[id(n)], spec["node"][1])  # noqa: E731
        kwargs["nodefunc"] = nodefunc
    if "edge" in spec:
        edgefunc = lambda p, c: spec["edge"][index_of[id(c)] % len(spec["edge"])]  # noqa: E731
        kwargs["edgefunc"] = edgefunc
    _yes, _no = c06.TRUTH_STYLES[case.get("truth", 0) % 4]  # predicates are judged by truth value only
    if case["stop"]:
        kwargs["stop"] = lambda n: _yes if id(n) in stop_ids else _no
    if case["hide"]:
        kwargs["filter_"] = lambda n: _yes if id(n) not in hide_ids else _no
    if maxlevel is not None:
        kwargs["maxlevel"] = maxlevel
    for key in ("graph", "name", "options", "indent"):
        if key in case:
            kwargs[key] = case[key]
    trip = {"left": None}
    kwargs = falsify(tripwired(kwargs, trip), case)
    if case.get("positional"):
        # every option passed by position, in the order of the released signature
        order = ["graph", "name", "options", "indent", "nodenamefunc", "nodefunc", "edgefunc", "filter_", "stop", "maxlevel"]
        defaults = {"graph": "graph", "name": "TD", "indent": 0}
        exporter = MermaidExporter(start, *[kwargs.get(key, defaults.get(key)) for key in order])
    else:
        exporter = MermaidExporter(start, **kwargs)
    ctx = "start=%s stop=%s hide=%s maxlevel=%r shape=%s names=%r" % (case["start"], case["stop"], case["hide"], maxlevel, case["shape"], names)
    indent = " " * case.get("indent", 0)
    header = "%s %s" % (case.get("graph", "graph"), case.get("name", "TD"))
    options = case.get("options") or []

    level = [maxlevel, stop_ids, hide_ids]

    def verify(lines, known_ident, phase):
        """A maxlevel that is not a whole number and predicate objects that are falsy have no prescribed reading (the
        statement says 'depth below maxlevel', the iterators count levels from 1; 'x or default' skips a falsy callable):
        the output must be right for ONE reading - node and edge statements have to agree on it - and no more is asked."""
        options_ = readings(case, maxlevel, stop_ids, hide_ids)
        first = None
        for reading in options_:
            level[:] = reading
            try:
                return verify_at(lines, known_ident, phase)
            except Violation as exc:
                if len(options_) == 1:
                    raise
                first = first or exc
        raise Violation(first.clause, "no single reading of maxlevel=%r / the falsy predicates explains the output: %s" % (maxlevel, first.detail))

    def verify_at(lines, known_ident, phase):
        """Complete oracle for one iteration of the exporter against the CURRENT tree and admission sets."""
        where = "%s [%s]" % (ctx, phase)
        if not lines or lines[0] != header:
            raise Violation("header", "%s: first line %r expected %r" % (where, lines[:1], header))
        body = lines[1:]
        if body[: len(options)] != [indent + o for o in options]:
            raise Violation("options", "%s: option lines %r" % (where, body[: len(options)]))
        body = body[len(options):]
        declared, edges, _ = expected_structure(tree, start, level[1], level[2], level[0])
        if len(body) < len(declared):
            raise Violation("node-lines", "%s: %d lines for %d declared nodes: %r" % (where, len(body), len(declared), body))
        ident = {}
        for node, line in zip(declared, body):
            rest = nodefunc(node) if nodefunc else '["%s"]' % esc(node.name)
            if not line.startswith(indent) or not line.endswith(rest):
                raise Violation("node-line", "%s: %r should be indent + id + %r" % (where, line, rest))
            nid = line[len(indent): len(line) - len(rest)]
            if nodename:
                if nid != nodename(node):
                    raise Violation("node-identifier", "%s: identifier %r expected %r" % (where, nid, nodename(node)))
            elif not re.fullmatch(r"[A-Za-z_][A-Za-z0-9_]*", nid):  # the statement only asks for distinct, stable identifiers
                raise Violation("node-identifier", "%s: default identifier %r in %r" % (where, nid, line))
            if id(node) in known_ident and known_ident[id(node)] != nid:
                raise Violation("identifier-stability", "%s: node %r was %s in an earlier iteration of the same exporter and is %s now" % (where, node.name, known_ident[id(node)], nid))
            ident[id(node)] = nid
        if len(set(ident.values())) != len(declared):
            raise Violation("identifier-collision", "%s: identifiers %r are not distinct" % (where, sorted(ident.values())))
        want = collections.Counter()
        for p, c in edges:
            want["%s%s%s%s" % (indent, ident[id(p)], edgefunc(p, c) if edgefunc else "-->", ident[id(c)])] += 1
        got = collections.Counter(body[len(declared):])
        if want - got:
            raise Violation("missing-edge", "%s: missing edge lines %r; got %r" % (where, sorted(want - got), body[len(declared):]))
        if got - want:
            raise Violation("extra-edge", "%s: unexpected lines %r (declared ids %r)" % (where, sorted(got - want), sorted(ident.values())))
        return declared, edges, ident

    lines = list(exporter)
    declared, edges, ident = verify(lines, {}, "first iteration")
    if list(exporter) != lines:
        raise Violation("re-iteration", "%s: second iteration differs (identifiers must be stable)" % ctx)
    aborted_iterations(exporter, trip, lines, ctx, acc, (0, case.get("abort_at", 2), len(lines)))
    if declared:
        # interleaved iterations of the same exporter
        it1 = iter(exporter)
        head = [next(it1) for _ in range(1 + len(options) + len(declared))]
        second = list(exporter)
        if head + list(it1) != lines or second != lines:
            raise Violation("identifier-stability", "%s: interleaved iterations of one exporter disagree" % ctx)
        # ... and two iterations that really overlap: the first has emitted its node statements, a second one is started and
        # advanced a little, the first one is finished, then the second
        it1 = iter(exporter)
        head = [next(it1) for _ in range(1 + len(options) + len(declared))]
        it2 = iter(exporter)
        part = [next(it2) for _ in range(min(2, len(lines)))]
        rest1 = list(it1)
        rest2 = list(it2)
        if head + rest1 != lines or part + rest2 != lines:
            raise Violation("overlapping-iterations", "%s: two overlapping iterations of one exporter give %r and %r instead of twice %r" % (ctx, head + rest1, part + rest2, lines))
        # options re-assigned on the exporter while an iteration is running (to prepare the next export): the running one is
        # finished under ONE set of predicates - those it started with, or the new ones - never node lines under one and
        # edge lines under the other
        if case["hide"] or case["stop"]:
            it1 = iter(exporter)
            head = [next(it1) for _ in range(1 + len(options) + len(declared))]
            saved = exporter.filter_, exporter.stop
            exporter.filter_, exporter.stop = None, None
            try:
                mixed = head + list(it1)
                loosened = list(exporter)
            finally:
                exporter.filter_, exporter.stop = saved
            if mixed != lines and mixed != loosened:
                raise Violation("options-changed-mid-iteration", "%s: filter_/stop were reset after the node lines of a running iteration; it finished as %r - neither the export under the old predicates %r nor under the new ones %r" % (ctx, mixed, lines, loosened))
            acc.tag("options_changed_during_a_running_iteration")
        # the exporter pointed at another node of the tree for a while (exporter.node is a public attribute): identifiers
        # are stable across iterations of ONE exporter, whatever it was asked to export in between
        if not spec and not case["hide"] and not case["stop"] and maxlevel is None and len(declared) >= 2:
            sub = declared[-1] if declared[-1].children else declared[1]
            exporter.node = sub
            try:
                part = list(exporter)
            finally:
                exporter.node = start
            stray = [line for line in part[1 + len(options):] if line not in lines]
            if stray:
                raise Violation("identifier-stability", "%s: after exporter.node was pointed at node %r, its export has the lines %r, which the export of the whole tree by the same exporter does not have" % (ctx, sub.name, stray))
            if list(exporter) != lines:
                raise Violation("identifier-stability", "%s: after exporter.node was pointed at another node and back, the export of the tree differs" % ctx)
            acc.tag("exporter_pointed_at_another_node_and_back")
        known = dict(ident)
        # the same exporter after the tree has grown ...
        extra = Node("extra-first-child")
        index_of[id(extra)] = len(tree)
        tree.append(extra)
        start.children = (extra,) + start.children
        try:
            known.update(verify(list(exporter), known, "after a first child was added")[2])
            # ... and after the admitted set has shrunk (stateful filter_/stop predicates are legitimate)
            victim = declared[-1]
            if case["hide"] and victim is not start:
                hide_ids.add(id(victim))
                verify(list(exporter), known, "after filter_ started to hide node %r" % (victim.name,))
                hide_ids.discard(id(victim))
            if case["stop"] and victim is not start:
                stop_ids.add(id(victim))
                verify(list(exporter), known, "after stop started to cut at node %r" % (victim.name,))
                stop_ids.discard(id(victim))
        finally:
            extra.parent = None
            tree.pop()
    if case.get("to_file"):
        fd, path = tempfile.mkstemp(suffix=".md", prefix="vf-c13-")
        os.close(fd)
        try:
            exporter.to_file(path)
            with open(path, "rb") as fh:
                data = fh.read().decode("utf-8")
        finally:
            os.unlink(path)
        expected = "```mermaid\n" + "".join(l + "\n" for l in lines) + "```"
        if data != expected:
            raise Violation("to_file", "file content %r expected %r" % (data, expected))
    if forest.snapshot(tree, labels) != before:
        raise Violation("no-mutation", "export changed the tree")
    admitted = refs.admitted_ids(start, stop_ids, maxlevel)
    r_stop = len(admitted) < len(refs.admitted_ids(start, set(), maxlevel))
    r_level = len(admitted) < len(refs.admitted_ids(start, stop_ids, None))
    r_filter = any(i in admitted for i in hide_ids)
    acc.nontrivial(bool(edges) and (r_stop + r_level + r_filter >= 2))
    acc.tag("cases_with_edges", bool(edges))
    acc.tag("maxlevel_0", maxlevel == 0)
    acc.tag("maxlevel_not_a_whole_number", fractional(maxlevel))
    acc.tag("falsy_predicate_objects", bool(case.get("falsy_predicates")))
    acc.tag("custom_functions", bool(spec))


def _enum_cases(max_nodes, index, count):
    from .c06 import _subtree_labels

    k = 0
    for shape in shapes.trees_upto(max_nodes):
        size = shapes.shape_size(shape)
        parents = shapes.shape_to_parents(shape)
        for start in range(size):
            k += 1
            if k % count != index:
                continue
            sub = _subtree_labels(shape, start)
            depth = {start: 0}
            for idx in sub[1:]:
                depth[idx] = depth[parents[idx]] + 1
            height = max(depth.values())
            names = special_names(size, k) if k % 6 else exotic_names(size, k // 6)
            for stop in shapes.subsets(sub):
                for hide in shapes.subsets(sub):
                    for maxlevel in [None] + list(range(0, height + 3)):
                        yield {"shape": forest.to_list(shape), "names": names, "start": start, "stop": stop, "hide": hide, "maxlevel": maxlevel, "truth": k, "positional": k % 4 == 0, "indent": k % 3, "cls": ("Node", "EqNode", "Link", "FalsyNode", "LenNode")[k % 5]}


def _fraction_cases(max_nodes):
    """maxlevel = 0.5, 1.5, 2.5 ...: on every small shape and start node, alone and with one stopped or hidden node."""
    from .c06 import _subtree_labels

    k = 0
    for shape in shapes.trees_upto(max_nodes):
        size = shapes.shape_size(shape)
        for start in range(size):
            sub = _subtree_labels(shape, start)
            if len(sub) < 2:
                continue
            for half in range(0, 4):
                for stop, hide in [([], [])] + [([x], []) for x in sub[1:]] + [([], [x]) for x in sub]:
                    k += 1
                    yield {"shape": forest.to_list(shape), "names": special_names(size, k), "start": start, "stop": stop, "hide": hide, "maxlevel": half + 0.5, "truth": k, "positional": k % 4 == 0, "indent": k % 3, "cls": "Node"}
            # option lines are the indent followed by the option, whatever the option is (empty, blank, several lines, fences)
            for j, options in enumerate((["", "x"], ["  "], ["%% a\n%% b"], ["```"], ["tail\r", "  ```mermaid"])):
                k += 1
                yield {"shape": forest.to_list(shape), "names": special_names(size, k), "start": start, "stop": [], "hide": [], "maxlevel": None, "truth": k, "positional": k % 4 == 0, "indent": 1 + j % 3, "cls": "Node", "options": options, "to_file": True}
            # predicate objects that are falsy: used or ignored, but the same way for node lines and edge lines
            for stop, hide in [([x], []) for x in sub[1:]] + [([], [x]) for x in sub] + [([x], [y]) for x in sub[1:] for y in sub if x != y]:
                k += 1
                yield {"shape": forest.to_list(shape), "names": special_names(size, k), "start": start, "stop": stop, "hide": hide, "maxlevel": None if k % 3 else 2, "truth": k, "positional": k % 4 == 0, "indent": k % 3, "cls": "Node", "falsy_predicates": True}


@st.composite
def random_cases(draw):
    shape = draw(strategies.tree_shapes(max_nodes=20))
    size = shapes.shape_size(forest.to_tuple(shape))
    pool = draw(st.lists(NAME, min_size=1, max_size=4))
    names = [draw(st.one_of(st.sampled_from(pool), NAME)) for _ in range(size)]
    if draw(st.integers(0, 3)) == 0:
        names = exotic_names(size, draw(st.integers(0, 15)))
    case = {
        "shape": shape,
        "names": names,
        "start": draw(st.one_of(st.just(0), st.integers(0, size - 1))),
        "stop": draw(strategies.subsets_of(size, max_size=3)),
        "hide": draw(strategies.subsets_of(size, max_size=4)),
        "maxlevel": draw(st.one_of(st.none(), st.integers(0, 6), st.integers(0, 6), st.sampled_from([{"inf": 1}, 2 ** 70, True]))),
        "truth": draw(st.integers(0, 3)),
        "positional": draw(st.integers(0, 3)) == 0,
        "to_file": draw(st.integers(0, 9)) == 0 and not any(isinstance(n, str) and any(0xD800 <= ord(ch) <= 0xDFFF for ch in n) for n in names),
        "mutations": draw(strategies.tree_mutations(max_ops=2, rename_values=NAME)),
        "cls": draw(st.sampled_from(["Node", "Node", "EqNode", "FalsyNode", "LenNode", "Link"])),
    }
    if draw(st.booleans()):
        funcs = {}
        if draw(st.booleans()):
            funcs["nodename"] = draw(st.sampled_from(["id", "K_", "node"]))
        if draw(st.booleans()):
            funcs["node"] = draw(st.sampled_from([["(", ")"], ["[[", "]]"], ['["', '"]'], ["{", "}"]])) + [draw(st.sampled_from([0, 0, 1, 2, 3]))]
        if draw(st.booleans()):
            funcs["edge"] = draw(st.lists(st.sampled_from(["-->", "---", "-.->", "-- x -->", "==>", ""]), min_size=1, max_size=2))
        case["funcs"] = funcs
    if draw(st.booleans()):
        case["indent"] = draw(st.integers(0, 8))
    if draw(st.booleans()):
        case["options"] = draw(st.lists(st.sampled_from(["%% comment", "classDef x fill:#f9f;", "linkStyle default stroke:red", "", "  ", "%% a\n%% b", "tail\r", "```", "```` four", "  ```mermaid"]), max_size=3))
    if draw(st.booleans()):
        case["graph"] = draw(st.sampled_from(["graph", "flowchart"]))
        case["name"] = draw(st.sampled_from(["TD", "LR", "BT"]))
    return case


def _wide_cases(widths):
    """Exports of many hundreds of lines, also written to a file (a node with several hundred children, one of them with children of its own)."""
    for width in widths:
        shape = [[] for _ in range(width)]
        shape[width // 3] = [[], [[]]]
        size = width + 4
        for maxlevel, hide in ((None, []), (2, [5, width])):
            yield {"shape": shape, "names": ["n%d" % i for i in range(size)], "start": 0, "stop": [], "hide": hide, "maxlevel": maxlevel, "to_file": True, "cls": "Node"}


def _round_cases(totals):
    """Exports whose number of lines is exactly a round number (block sizes of buffered writers), written to a file."""
    for total in totals:
        for options in ([], ["%% one", "%% two"]):
            width = (total - len(options)) // 2 - 4
            shape = [[] for _ in range(width)]
            shape[width // 3] = [[], [[]]]
            case = {"shape": shape, "names": ["n%d" % i for i in range(width + 4)], "start": 0, "stop": [], "hide": [], "maxlevel": None, "to_file": True, "cls": "Node"}
            if options:
                case["options"] = options
            yield case


def plan(tier, seed):
    nshards = 16
    max_nodes = QUICK_N if tier == "quick" else THOROUGH_N
    examples = 150 if tier == "quick" else 1200
    tasks = [{"engine": "enum", "max_nodes": max_nodes, "index": i, "count": nshards * 2} for i in range(nshards * 2)]
    tasks += [{"engine": "hyp", "examples": examples, "seed": seed * 1000 + i} for i in range(nshards)]
    tasks += [{"engine": "round", "totals": [t]} for t in ((256, 1000, 1024, 2000, 2048, 3000, 4096, 8192) if tier == "quick" else (100, 128, 256, 500, 512, 1000, 1024, 2000, 2048, 3000, 4096, 5000, 8192, 10000, 16384))]
    tasks += [{"engine": "tall", "factor": f} for f in ((0.6,) if tier == "quick" else (0.3, 0.6, 0.8))]
    tasks += [{"engine": "locale"}, {"engine": "gc"}, {"engine": "fraction", "max_nodes": 4 if tier == "quick" else 5}]
    tasks += [{"engine": "wide", "widths": [w]} for w in ((300, 700) if tier == "quick" else (257, 300, 700, 1100, 2500))]
    return tasks


def run_task(task, acc):
    if task["engine"] == "tall":
        case = {"kind": "tall", "factor": task["factor"]}
        exc = acc.evaluate(check_case, case, enumerated=False)
        if exc is not None:
            acc.add_violation(case, exc)
        return
    if task["engine"] == "gc":
        for victims in ([0], [1, 0, 2], [2, 2, 2, 0], [3, 1, 4, 1, 0], [0, 0, 0, 0]):
            case = {"kind": "gc", "width": 5, "victims": victims}
            exc = acc.evaluate(check_case, case, enumerated=False)
            if exc is not None:
                acc.add_violation(case, exc)
                break
        return
    if task["engine"] == "locale":
        case = {"kind": "locale", "which": "mermaid"}
        exc = acc.evaluate(check_case, case, enumerated=False)
        if exc is not None:
            acc.add_violation(case, exc)
        return
    if task["engine"] in ("wide", "round"):
        for case in (_wide_cases(task["widths"]) if task["engine"] == "wide" else _round_cases(task["totals"])):
            exc = acc.evaluate(check_case, case, enumerated=False)
            if exc is not None:
                acc.add_violation(case, exc)
                break
        return
    if task["engine"] == "fraction":
        acc.run_enum(check_case, _fraction_cases(task["max_nodes"]))
    elif task["engine"] == "enum":
        acc.run_enum(check_case, _enum_cases(task["max_nodes"], task["index"], task["count"]))
    else:
        acc.run_hypothesis(check_case, random_cases(), task["examples"], task["seed"])


def evidence_extra(total, tier):
    return {"exhaustive_subdomain": "complete product start x stop subset x filtered-out subset x maxlevel (None, 0..height+2) on every shape <= %d nodes" % (QUICK_N if tier == "quick" else THOROUGH_N)}
