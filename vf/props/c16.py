"""C16 - notification hooks fire exactly once and in order around each link change."""
from anytree import LoopError, TreeError

from .. import mut
from ..core import Violation

PROP_ID = "C16"
LEVEL = "exploration"
RULE = (
    "cases = (node class, labelled forest, build route, call history, fault plan per call) with logging hooks that also snapshot the "
    "whole forest at every invocation. Enumerated: every labelled ordered forest over N <= 3 (quick) / N <= 4 (thorough) x build routes "
    "x every call x every single fault position of all eight hooks and persistent single (hook,node) plans, NodeMixin and slotted "
    "LightNodeMixin classes; generated: Hypothesis histories (<= 7 nodes, <= 25 calls, random initial forests). Non-trivial = a call with "
    ">= 4 hook invocations, or a *_children wrapper around >= 2 per-child changes. Enumerated distinct by construction; histories hashed."
    ' Also: interrupt-like BaseExceptions at every hook position; classes that got their hooks after they were already in use (assigned to the class / one callable per instance); *_children hooks that re-file a child.'
    ' Also: del n.children detaches from n only, whatever editing hooks did.'
    " Also: hooks returning False, exceptions reaching the caller unreplaced, hooks editing the caller's own list."
    ' Rounds 11-14: arming/cooperative/per-instance hooks, warnings as errors, hooks filing another node below the receiver, raising post hook in a link constructor.'
)
ASSUMPTIONS = [
    "layer 1 (successful calls, refused calls and parent assignments aborted by a hook): the complete hook log equals the closed-form log derived from the protocol statement",
    "layer 2 (every call, also failed children assignments with rollbacks): the forest changes only between a _pre_detach/_post_detach pair (node leaves old parent) or a _pre_attach/_post_attach pair (node becomes last child of new parent)",
    "layer 3: in-hook snapshots show the documented before/after states",
    "hooks are looked up on the node like any other method: classes that get them assigned after they were already in use, and per-instance callables, count (classes HLateNM/HLateLM/HInstNM)",
    "hook logs of failed children assignments are not prescribed by the statement; only layers 2 and 3 apply to them",
    "calls in which a hook edits the tree itself (plan 'evict': a per-node hook detaches the first other child of its parent argument, a *_children hook re-files the first listed child under another node) are judged by layer 3 and link consistency only",
]
CLASS_SPECS = ["HNM", "HLM", "HNode", "HDictLM", ["HNode", "HAnyNode", "HSymlink", "HNM"], ["HLM", "HDictLM"], "HLateNM", "HLateLM", "HInstNM", "HSlotStoreNM", "HSideNM", "HArmNM", "HInstLM", "HCoopNM", "HCoopLM", "HCopyNM", "HCopyLM", "HArmLM"]


def detach_of(state, n, old):
    new = mut.copy_state(state)
    new[old][1] = [c for c in new[old][1] if c != n]
    new[n][0] = None
    return new


def attach_of(state, n, p):
    new = mut.copy_state(state)
    new[p][1] = new[p][1] + [n]
    new[n][0] = p
    return new


def occurrences(state, n):
    return [p for p, (_, kids) in enumerate(state) for c in kids if c == n]


def check_brackets(step, layer2=True):
    """Layers 2 and 3 over the snapshots taken at the hook invocations (layer2=False: only what each hook observes)."""
    frames = [step.pre] + step.snaps + [step.post]
    log = step.log
    raised = set(step.raised)
    ctx = "%s plan=%s on %s log=%s" % (step.op, step.plan, step.pre, log)
    if layer2 and frames[0] != frames[1]:
        raise Violation("change-outside-brackets", "forest changed before the first hook (or without any hook): %s -> %s; %s" % (frames[0], frames[1], ctx))
    for i, entry in enumerate(log):
        kind, n, arg = entry
        here, nxt = frames[i + 1], frames[i + 2]
        fired = (i + 1) in raised
        # layer 3: what the hook sees
        if kind == "pre_detach":
            if here[n][0] != arg or occurrences(here, n) != [arg]:
                raise Violation("in-hook-state", "_pre_detach(%s, %s) does not see the node as a child of its old parent: %s; %s" % (n, arg, here, ctx))
        elif kind in ("post_detach", "pre_attach"):
            if here[n][0] is not None or occurrences(here, n):
                raise Violation("in-hook-state", "_%s(%s, %s) does not see the node as a root: %s; %s" % (kind, n, arg, here, ctx))
        elif kind == "post_attach":
            if here[n][0] != arg or occurrences(here, n) != [arg] or here[arg][1][-1] != n:
                raise Violation("in-hook-state", "_post_attach(%s, %s) does not see the node as last child of the new parent: %s; %s" % (n, arg, here, ctx))
        elif not layer2:
            pass  # a tree-editing hook changes what the *_children wrappers can expect to see
        elif kind == "pre_detach_children":
            if here[n][1] != arg:
                raise Violation("in-hook-state", "_pre_detach_children(%s, %s) is not given the current children %s; %s" % (n, arg, here[n][1], ctx))
        elif kind == "post_detach_children":
            # a post hook observes the tree after its step: all former children have left
            if here[n][1] or any(isinstance(c, int) and here[c][0] == n for c in arg):
                raise Violation("in-hook-state", "_post_detach_children(%s, %s) runs while the node still has children %s; %s" % (n, arg, here[n][1], ctx))
        elif kind == "pre_attach_children":
            if here[n][1]:
                raise Violation("in-hook-state", "_pre_attach_children(%s, %s) runs while the node still has children %s; %s" % (n, arg, here[n][1], ctx))
        elif kind == "post_attach_children":
            if here[n][1] != arg:
                raise Violation("in-hook-state", "_post_attach_children(%s, %s) sees children %s; %s" % (n, arg, here[n][1], ctx))
        # layer 2: what may change until the next hook / the end of the call
        if not layer2:
            continue
        if kind == "pre_detach" and not fired:
            follows = log[i + 1] if i + 1 < len(log) else None
            if follows != ["post_detach", n, arg]:
                raise Violation("hook-order", "_pre_detach(%s, %s) is not followed by the matching _post_detach; %s" % (n, arg, ctx))
            if nxt != detach_of(here, n, arg):
                raise Violation("bracket-effect", "between _pre_detach and _post_detach of %s the forest went %s -> %s; %s" % (n, here, nxt, ctx))
        elif kind == "pre_attach" and not fired:
            follows = log[i + 1] if i + 1 < len(log) else None
            if follows != ["post_attach", n, arg]:
                raise Violation("hook-order", "_pre_attach(%s, %s) is not followed by the matching _post_attach; %s" % (n, arg, ctx))
            if nxt != attach_of(here, n, arg):
                raise Violation("bracket-effect", "between _pre_attach and _post_attach of %s the forest went %s -> %s; %s" % (n, here, nxt, ctx))
        else:
            if nxt != here:
                raise Violation("change-outside-brackets", "forest changed after _%s(%s, %s)%s: %s -> %s; %s" % (kind, n, arg, " raised" if fired else "", here, nxt, ctx))


def partial_parent_state(pre, op, k):
    """State after a parent assignment whose k-th hook invocation raised."""
    n, p = op[1], op[2]
    old = pre[n][0]
    log = mut.spec_log(pre, op)
    kind = log[k - 1][0]
    state = mut.copy_state(pre)
    if kind == "pre_detach":
        return state
    state = detach_of(state, n, old) if old is not None else state
    if kind in ("post_detach", "pre_attach"):
        return state
    return attach_of(state, n, p)


def check_blind(case, acc):
    """Fault-free history executed WITHOUT any read between the calls (reads can re-create lazily built internal
    state and so mask a protocol slip); only the hook logs are collected, the forest is inspected at the very end."""
    n = case["n"]
    rec = mut.Recorder()
    mut.CURRENT[0] = rec
    universe = mut.create_nodes(mut.class_list(case["cls"], n))
    for node in universe:
        rec.labels.add(node)
    rec.universe = universe
    state = mut.all_roots(n)
    family = mut.family_of(case["cls"])
    checked = 0
    for item in case["steps"]:
        op = item["op"]
        verdict, new = mut.spec(state, op, family)
        rec.begin_call(None)
        exc = mut.execute(universe, op)
        log = rec.log
        rec.begin_call(None)
        ctx = "%s on model state %s (history executed without intermediate reads: %s)" % (op, state, [s["op"] for s in case["steps"]])
        if verdict == "ok":
            if exc is not None:
                raise Violation("blind-outcome", "%s raised %s: %s" % (ctx, type(exc).__name__, exc))
            expected = mut.spec_log(state, op)
            if log != expected:
                raise Violation("hook-log", "%s: hooks %s, protocol prescribes %s" % (ctx, log, expected))
            state = new
            checked += 1
        else:
            if exc is None or type(exc).__name__ != new:
                raise Violation("blind-outcome", "%s must raise %s, got %s" % (ctx, new, type(exc).__name__ if exc else "no exception"))
            if op[0] == "children" and new == "LoopError":
                break  # a refused children list may strand stolen children (KF-C03-3): the model state is unknown from here
            if log:
                raise Violation("hook-on-refusal", "%s was refused but hooks ran: %s" % (ctx, log))
    else:
        final = mut.snapshot(universe, rec.labels)
        if final != state:
            raise Violation("blind-final-state", "history %s ends in %s, closed-form model %s" % ([s["op"] for s in case["steps"]], final, state))
    acc.nontrivial(checked >= 2)
    acc.tag("blind_histories")
    acc.tag("blind_steps_log_compared", checked)


_FILTERS_SET = []


def check_adopt(case, acc):
    """A *_children hook (or a per-child hook) that files ANOTHER node below the receiver while the call is running, and a
    constructor whose post-hook raises: the protocol holds for what is there when each phase runs.

    adopt: `del n.children` / `n.children = xs` detach every node that is a child of n when the detach phase runs - also one a
    _pre_detach_children hook has just put there - each with its own _pre_detach/_post_detach pair inside the brackets.
    ctor: `Link(target, parent=p)` whose _post_attach raises: the exception propagates, the step before it stays done, and
    no detach hook fires (an exception from a post hook does not undo the step)."""
    from anytree import LightNodeMixin, NodeMixin, SymlinkNode

    log = []
    base = {"NM": NodeMixin, "LM": LightNodeMixin}[case["family"]]

    class Rec(base):
        def __init__(self, name):
            self.name = name
            self.adopt = None
            self.boom = False

        def _pre_detach_children(self, children):
            log.append(("pre_detach_children", self.name))
            if self.adopt is not None and case["where"] == "pre_detach_children":
                late, self.adopt = self.adopt, None
                late.parent = self

        def _post_detach_children(self, children):
            log.append(("post_detach_children", self.name, tuple(c.name for c in self.children)))

        def _pre_attach_children(self, children):
            log.append(("pre_attach_children", self.name, tuple(c.name for c in self.children)))

        def _post_attach_children(self, children):
            log.append(("post_attach_children", self.name))

        def _pre_detach(self, parent):
            log.append(("pre_detach", self.name, parent.name))
            if parent.adopt is not None and case["where"] == "pre_detach":
                late, parent.adopt = parent.adopt, None
                late.parent = parent

        def _post_detach(self, parent):
            log.append(("post_detach", self.name, parent.name))

        def _pre_attach(self, parent):
            log.append(("pre_attach", self.name, parent.name))

        def _post_attach(self, parent):
            log.append(("post_attach", self.name, parent.name))

    n, a, b, late, x = Rec("n"), Rec("a"), Rec("b"), Rec("late"), Rec("x")
    a.parent = n
    b.parent = n
    del log[:]
    n.adopt = late
    if case["op"] == "del":
        del n.children
        want_children = []
    else:
        n.children = [x]
        want_children = [x]
    got = list(n.children)
    if len(got) != len(want_children) or any(g is not w for g, w in zip(got, want_children)):
        raise Violation("change-outside-brackets", "%s with a %s hook that files another node below n: n.children = %s afterwards, expected %s (log %s)" % (case["op"], case["where"], [c.name for c in got], [c.name for c in want_children], log))
    for node in (a, b, late):
        if node.parent is not None:
            raise Violation("change-outside-brackets", "%s with a %s hook that files another node below n: %s is still a child of %s" % (case["op"], case["where"], node.name, node.parent.name))
        if log.count(("pre_detach", node.name, "n")) != 1 or log.count(("post_detach", node.name, "n")) != 1:
            raise Violation("hook-log", "%s with a %s hook that files another node below n: %s got %d pre_detach and %d post_detach calls (log %s)" % (case["op"], case["where"], node.name, log.count(("pre_detach", node.name, "n")), log.count(("post_detach", node.name, "n")), log))
    for entry in log:
        if entry[0] in ("post_detach_children", "pre_attach_children") and entry[2]:
            raise Violation("in-hook-state", "%s: %s of n sees the children %s" % (case["op"], entry[0], entry[2]))
    if case["family"] == "NM":
        class BoomLink(SymlinkNode):
            def _pre_attach(self, parent):
                log.append(("pre_attach", "link", parent.name))

            def _post_attach(self, parent):
                log.append(("post_attach", "link", parent.name))
                raise KeyError("post hook of the link")

            def _pre_detach(self, parent):
                log.append(("pre_detach", "link", parent.name))

            def _post_detach(self, parent):
                log.append(("post_detach", "link", parent.name))

        del log[:]
        host = Rec("host")
        try:
            BoomLink(a, parent=host)
            raise Violation("hook-exception-replaced", "the constructor of a SymlinkNode subclass swallowed the exception of its _post_attach hook")
        except KeyError:
            pass
        if log != [("pre_attach", "link", "host"), ("post_attach", "link", "host")] or len(host.children) != 1:
            raise Violation("hook-log", "SymlinkNode subclass constructed with parent= whose _post_attach raises: hooks %s, the parent has %d children (an exception from a post hook does not undo the step)" % (log, len(host.children)))
    acc.nontrivial(True)
    acc.tag("hooks_that_file_another_node_below_the_receiver")


def check_case(case, acc):
    # callers may run with warnings turned into errors (python -W error, pytest filterwarnings=error): a structural call
    # that is in order emits no warning, and an exception raised by a hook is not replaced by one
    import warnings

    if not _FILTERS_SET:
        warnings.simplefilter("error")
        warnings.filterwarnings("default", module=r"hypothesis(\..*)?")  # the test library's own notices stay notices
        try:
            from hypothesis.errors import HypothesisDeprecationWarning, HypothesisWarning

            warnings.filterwarnings("default", category=HypothesisDeprecationWarning)
            warnings.filterwarnings("default", category=HypothesisWarning)
        except ImportError:
            pass
        _FILTERS_SET.append(True)
    if case.get("kind") == "blind":
        return check_blind(case, acc)
    if case.get("kind") == "adopt":
        return check_adopt(case, acc)
    family = mut.family_of(case["cls"])
    stats = {"nontrivial": 0, "success": 0, "aborted_parent": 0, "failed_children": 0, "posthook": 0}

    def per_step(step, rec, universe):
        op = step.op
        plain = mut.op_is_plain(op)
        ctx = "%s plan=%s on %s" % (op, step.plan, step.pre)
        if isinstance(step.exc, AssertionError) and not isinstance(step.exc, mut.Veto) and step.plan.get("evict"):
            # with ANYTREE_ASSERTIONS=1 the library re-checks 'all requested children are attached' after the loop; a hook
            # that evicts one of them makes that optional self-check fail - the hook's doing, outside this property
            acc.note("evicting_hook_trips_optional_self_check")
            return
        if isinstance(step.exc, AssertionError) and not isinstance(step.exc, mut.Veto):
            raise Violation("internal-assertion", "%s: %r" % (ctx, step.exc))
        if isinstance(step.exc, RecursionError):
            acc.note("calls_ending_in_RecursionError_not_bracket_checked")  # unbounded rollback recursion, see KF-C03-4
            return
        if step.raised and not isinstance(step.exc, (mut.Veto, mut.VetoBase, RecursionError)) and not step.plan.get("evict"):
            raise Violation("hook-exception-replaced", "%s: hook call %s raised, but the caller got %s: %s" % (ctx, step.raised, type(step.exc).__name__, step.exc))
        if isinstance(step.exc, mut.VetoBase):
            # an interrupt-like exception (not an Exception) left a hook: the call ends there - no handler of the library
            # reacts to it, so no further hook fires and nothing changes any more
            first = min(step.raised)
            if len(step.log) != first:
                raise Violation("hooks-after-interrupt", "%s: a BaseException left hook call %d, yet %d more hook calls followed: %s" % (ctx, first, len(step.log) - first, step.log[first:]))
            if step.post != step.snaps[first - 1]:
                raise Violation("change-after-interrupt", "%s: a BaseException left hook call %d with the forest %s, afterwards it is %s" % (ctx, first, step.snaps[first - 1], step.post))
            check_brackets(step)
            stats["interrupted"] = stats.get("interrupted", 0) + 1
            return
        if step.plan.get("evict"):
            # a hook of this call edits the tree itself (nested structural call): the prescribed log no longer applies,
            # but every hook must still observe the documented before/after state, and the links must stay consistent
            check_brackets(step, layer2=False)
            if op[0] == "del":
                # `del n.children` detaches n's children and nobody else's: whatever a hook of this call did meanwhile (the
                # harness's hooks only detach a child of n or re-file it under another node), no node is detached FROM ANOTHER parent
                foreign = [e for e in step.log if e[0] in ("pre_detach", "post_detach") and e[2] != op[1]]
                if foreign:
                    raise Violation("hook-log", "%s: del children of node %s detached nodes from other parents: %s (full log %s)" % (ctx, op[1], foreign, step.log))
            problem = mut.consistency_problem(universe, rec.labels)
            if problem:
                raise Violation("in-hook-state", "%s: after a call whose hook evicted a sibling: %s" % (ctx, problem))
            stats["evicting"] = stats.get("evicting", 0) + 1
            return
        check_brackets(step)
        if op[0] == "children" and isinstance(op[2], dict):
            # a children value that is not iterable at all (None, a number): refused before anything happens - no hook fires
            if step.exc is None or step.log or step.post != step.pre:
                raise Violation("hook-on-refusal", "%s: a non-iterable children value must be refused before any hook runs; outcome %s, hooks %s, forest %s" % (ctx, type(step.exc).__name__ if step.exc else "accepted", step.log, step.post))
        if plain and step.exc is None:
            expected = mut.spec_log(step.pre, op)
            if step.log != expected:
                raise Violation("hook-log", "%s succeeded with log %s, protocol prescribes %s" % (ctx, step.log, expected))
            if step.raised:
                raise Violation("swallowed-hook-exception", "%s: a hook raised but the call returned normally" % ctx)
            stats["success"] += 1
        elif plain and type(step.exc) in (TreeError, LoopError) and (op[0] == "parent" or type(step.exc) is TreeError):
            if step.log:
                raise Violation("hook-on-refusal", "%s was refused with %s but hooks ran: %s" % (ctx, type(step.exc).__name__, step.log))
        elif plain and op[0] == "parent" and isinstance(step.exc, mut.Veto):
            expected = mut.spec_log(step.pre, op)[: step.exc.count]
            if step.log != expected:
                raise Violation("hook-log", "%s aborted by hook %d with log %s, protocol prescribes %s" % (ctx, step.exc.count, step.log, expected))
            want = partial_parent_state(step.pre, op, step.exc.count)
            if step.post != want and not step.log[-1][0].startswith("pre_"):
                raise Violation("post-hook-exception", "%s: after the exception from %s the forest should be %s, is %s" % (ctx, step.log[-1][0], want, step.post))
            if step.log[-1][0].startswith("post_"):
                stats["posthook"] += 1
            stats["aborted_parent"] += 1
        elif step.exc is not None and op[0] != "parent":
            stats["failed_children"] += 1
            if isinstance(step.exc, mut.Veto) and step.raised:
                # the per-child detach inside a children call is a parent assignment (child.parent = None): an exception
                # from its _post_detach propagates without undoing the detach that preceded it
                first = min(step.raised)
                kind, child, arg = step.log[first - 1]
                if kind == "post_detach" and arg == op[1] and not any(e[0] == "pre_attach_children" for e in step.log[:first]):
                    if step.post[child][0] is not None or child in step.post[arg][1]:
                        raise Violation("post-hook-exception", "%s: _post_detach(%s, %s) raised while the former children were being detached, yet after the call node %s is a child of %s again: %s (log %s)" % (ctx, child, arg, child, step.post[child][0], step.post, step.log))
                    stats["posthook_children"] = stats.get("posthook_children", 0) + 1
        if isinstance(step.exc, mut.Veto) and not step.raised:
            raise Violation("veto-origin", "Veto propagated although no hook raised in this call")
        wrappers = sum(1 for e in step.log if e[0] in ("pre_detach_children", "pre_attach_children") and len(e[2]) >= 2)
        if len(step.log) >= 4 or wrappers:
            stats["nontrivial"] += 1

    mut.run_case(case, per_step, take_snapshots=True)
    acc.nontrivial(stats["nontrivial"] > 0)
    acc.tag("steps", len(case["steps"]))
    acc.tag("successful_calls_log_compared", stats["success"])
    acc.tag("parent_assignments_aborted_by_hook", stats["aborted_parent"])
    acc.tag("parent_assignments_aborted_by_post_hook", stats["posthook"])
    acc.tag("failed_children_calls_bracket_checked", stats["failed_children"])
    acc.tag("calls_with_a_tree_editing_hook", stats.get("evicting", 0))
    acc.tag("calls_left_by_an_interrupt_like_BaseException", stats.get("interrupted", 0))
    acc.tag("children_calls_aborted_by_post_detach_while_detaching", stats.get("posthook_children", 0))


def plan(tier, seed):
    tasks = []
    nshards = 16
    for n in ([1, 2, 3] if tier == "quick" else [1, 2, 3, 4]):
        shards = 1 if n < 3 else (nshards if n == 3 else nshards * 4)
        for spec in ("HNM", "HLM"):
            for i in range(shards):
                tasks.append({"engine": "enum", "n": n, "spec": spec, "index": i, "count": shards, "pairs": n <= 2 or (n == 3 and tier == "thorough"), "maxlen": None if n <= 3 else 3, "routes": None if n <= 3 else ["parent", "detour"]})
    # classes that were already in use when they got their hooks (assigned to the class, or a callable per instance)
    for spec in ("HLateNM", "HLateLM", "HInstNM", "HInstLM", "HArmNM", "HArmLM", "HSideNM", "HSlotStoreNM", "HCoopNM", "HCoopLM"):
        for n in (2, 3):
            shards = 1 if n < 3 else 4
            for i in range(shards):
                tasks.append({"engine": "enum", "n": n, "spec": spec, "index": i, "count": shards, "pairs": False, "maxlen": 2, "routes": ["parent"]})
    examples = 80 if tier == "quick" else 500
    for i in range(nshards):
        tasks.append({"engine": "hyp", "examples": examples, "seed": seed * 1000 + i})
    # blind histories: every sequence of 2 (quick) / 3 (thorough: N = 2 only for length 3) calls from the all-roots forest, no reads in between
    for spec in ("HNM", "HLM", "HNode"):
        for n, length in ([(2, 3), (3, 2)] if tier == "quick" else [(2, 4), (3, 3)]):
            shards = nshards if (n, length) != (2, 3) else 4
            for i in range(shards):
                tasks.append({"engine": "blind-enum", "spec": spec, "n": n, "length": length, "index": i, "count": shards})
    tasks.append({"engine": "adopt"})
    for i in range(nshards):
        tasks.append({"engine": "blind-hyp", "examples": examples, "seed": seed * 1000 + 500 + i})
    return tasks


def _no_bad_for_lm(cases, family):
    for case in cases:
        if family == "LM" and not mut.op_is_plain(case["steps"][0]["op"]):
            continue
        yield case


def _blind_cases(spec, n, length, index, count):
    import itertools

    ops = [op for op in mut.calls_for(n, "NM", invalid=False)]
    k = 0
    for seq in itertools.product(ops, repeat=length):
        k += 1
        if k % count == index:
            yield {"kind": "blind", "cls": spec, "n": n, "steps": [{"op": op} for op in seq]}


def run_task(task, acc):
    if task["engine"] == "adopt":
        return acc.run_enum(check_case, ({"kind": "adopt", "family": fam, "where": where, "op": op} for fam in ("NM", "LM") for where in ("pre_detach_children",) for op in ("del", "children")))
    if task["engine"] == "blind-enum":
        return acc.run_enum(check_case, mut.blind_sequences(task["spec"], task["n"], task["length"], task["index"], task["count"]))
    if task["engine"] == "blind-hyp":
        from hypothesis import strategies as st

        @st.composite
        def blind(draw):
            spec = draw(st.sampled_from(["HNM", "HLM", "HNode", "HAnyNode", "HDictLM", ["HNode", "HAnyNode", "HSymlink", "HNM"]]))
            hist = draw(mut.history_strategy(max_nodes=6, max_steps=20, faults="none", invalid=False, class_specs=[spec]))
            return {"kind": "blind", "cls": spec, "n": hist["n"], "steps": [{"op": s["op"]} for s in hist["steps"]]}

        return acc.run_hypothesis(check_case, blind(), task["examples"], task["seed"])
    if task["engine"] == "enum":
        cases = mut.enum_fault_cases(task["spec"], task["n"], task["index"], task["count"], fault_hooks=mut.HOOKS, pairs=task["pairs"], invalid=True, maxlen=task["maxlen"], routes=task["routes"], evict=True)
        acc.run_enum(check_case, _no_bad_for_lm(cases, mut.family_of(task["spec"])))
    else:
        from hypothesis import strategies as st

        @st.composite
        def strat(draw):
            spec = draw(st.sampled_from(CLASS_SPECS))
            return draw(mut.history_strategy(max_nodes=7, max_steps=25, faults="all+evict", invalid=("look" if mut.family_of(spec) == "NM" else False), class_specs=[spec]))

        acc.run_hypothesis(check_case, strat(), task["examples"], task["seed"])


def evidence_extra(total, tier):
    return {"exhaustive_subdomain": "every labelled ordered forest over N <= %d nodes x build routes x every call x every single fault position of all eight hooks" % (3 if tier == "quick" else 4)}
