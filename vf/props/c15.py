"""C15 - Walker.walk returns the unique tree path between two nodes."""
from hypothesis import strategies as st

from anytree import Walker, WalkError

from .. import forest, nodes, refs, shapes, strategies
from ..core import Violation

PROP_ID = "C15"
LEVEL = "exploration"
RULE = (
    "cases = (shape, node class) with every ordered pair of nodes checked, plus a second tree for cross-tree pairs; all "
    "shapes up to 7 (quick) / 10 (thorough) nodes are enumerated, Hypothesis adds trees up to 60 nodes with sampled pairs. "
    "A pair is non-trivial when both upwards and downwards are non-empty; distinct_nontrivial counts distinct "
    "(shape, start, end) triples with that property (enumerated: by construction; generated: hashed per case)."
    ' Also: keyword calls, unreprable nodes, deep V from the root, python -O/-OO child interpreters.'
    ' Rounds 12-14: value-equal deep forks below trunks, chains of 70000+ levels, links as endpoints across trees.'
)
ASSUMPTIONS = ["ancestor chains are recomputed from .parent only; all comparisons by identity"]


_WALKER = Walker()  # one instance for the whole process: walk() must not depend on earlier calls


def chain(node):
    out = []
    cur = node
    while cur is not None:
        out.append(cur)
        cur = cur.parent
    return out  # node ... root


def check_pair(start, end, labels):
    cs, ce = chain(start), chain(end)
    if cs[-1] is not ce[-1]:
        if isinstance(start, nodes.BoomReprNM):
            return False  # the WalkError message legitimately shows the two nodes; this class cannot be shown
        # different trees: WalkError, in both directions
        for x, y in ((start, end), (end, start)):
            try:
                Walker().walk(x, y)
            except WalkError:
                pass
            else:
                raise Violation("walkerror", "walk(%s, %s) across trees did not raise WalkError" % (labels.label(x), labels.label(y)))
        return False
    ids_e = {id(n) for n in ce}
    common = next(n for n in cs if id(n) in ids_e)  # deepest node on both chains
    up_exp = []
    for n in cs:
        if n is common:
            break
        up_exp.append(n)
    down_exp = []
    for n in ce:
        if n is common:
            break
        down_exp.append(n)
    down_exp.reverse()
    got = _WALKER.walk(start, end)
    ctx = "walk(%s, %s)" % (labels.label(start), labels.label(end))
    if not (isinstance(got, tuple) and len(got) == 3):
        raise Violation("result-shape", "%s returned %r" % (ctx, got))
    up, com, down = got
    if not isinstance(up, tuple) or not isinstance(down, tuple):
        raise Violation("result-type", "%s: upwards/downwards must be tuples" % ctx)
    if com is not common:
        raise Violation("common", "%s expected %s got %s" % (ctx, labels.label(common), labels.label(com)))
    if not refs.same_seq(up, up_exp):
        raise Violation("upwards", "%s expected %s got %s" % (ctx, labels.labels(up_exp), labels.labels(up)))
    if not refs.same_seq(down, down_exp):
        raise Violation("downwards", "%s expected %s got %s" % (ctx, labels.labels(down_exp), labels.labels(down)))
    # independent structural clauses from the statement
    seq = list(up) + [com] + list(down)
    if seq[0] is not start or seq[-1] is not end:
        raise Violation("path-ends", ctx)
    for a, b in zip(list(up), list(up)[1:] + [com]):
        if a.parent is not b:
            raise Violation("upwards-links", ctx)
    for a, b in zip([com] + list(down), list(down)):
        if b.parent is not a:
            raise Violation("downwards-links", ctx)
    if len({id(n) for n in seq}) != len(seq):
        raise Violation("simple-path", ctx)
    # the documented parameter names can be used as keywords
    for again in (_WALKER.walk(start=start, end=end), _WALKER.walk(start, end=end), Walker().walk(end=end, start=start)):
        if not (again[1] is com and refs.same_seq(again[0], up) and refs.same_seq(again[2], down)):
            raise Violation("keyword-arguments", "%s differs when start/end are passed by keyword" % ctx)
    # mirror image
    rup, rcom, rdown = Walker.walk(end, start)
    if rcom is not com or not refs.same_seq(rup, list(reversed(down))) or not refs.same_seq(rdown, list(reversed(up))):
        raise Violation("mirror", ctx)
    return bool(up_exp) and bool(down_exp)


def check_deep(case, acc):
    """walk() between nodes of a very deep tree: Walker works on root paths, which are computed iteratively."""
    from .c04 import build_deep

    spine, side = build_deep(case, nodes.factory(case["cls"]))
    labels = forest.Labels(spine + side)
    picks = [spine[0], spine[len(spine) // 3], spine[-1]] + side[:1] + side[-1:]
    nontrivial = 0
    for a in picks:
        for b in picks:
            nontrivial += bool(check_pair(a, b, labels))
    acc.evaluations += len(picks) ** 2 - 1
    acc.nontrivial(nontrivial > 0)
    acc.tag("deep_tree_cases")


def check_links(case, acc):
    """A SymlinkNode stands at its OWN place in the forest: walking from or to a link that lives in another tree than the
    other endpoint raises WalkError even if the link's target sits in that tree, and inside its own tree a link is a node
    like any other."""
    from anytree import Node, SymlinkNode

    r = Node("r")
    a = Node("a", parent=r)
    b = Node("b", parent=a)
    c = Node("c", parent=r)
    lone = SymlinkNode(b)
    o = Node("o")
    inner = SymlinkNode(a, parent=o)
    below = Node("below", parent=inner)
    walker = Walker()
    for x in (r, a, b, c):
        for y in (lone, inner, below, o):
            for s_, e_ in ((x, y), (y, x)):
                try:
                    got = walker.walk(s_, e_)
                except WalkError:
                    continue
                raise Violation("walkerror-missing", "walk(%r, %r) across two trees returned %r (a link is in the tree where IT hangs, not where its target is)" % (s_, e_, got))
    got = walker.walk(below, o)
    if got[0] != (below, inner) or got[1] is not o or got[2] != ():
        raise Violation("upwards", "walk(node below a link, root of their tree) = %r" % (got,))
    got = walker.walk(o, below)
    if got[0] != () or got[1] is not o or got[2] != (inner, below):
        raise Violation("downwards", "walk(root, node below a link) = %r" % (got,))
    acc.nontrivial(True)
    acc.tag("links_as_walk_endpoints_across_trees")


def check_abyss(case, acc):
    """Chains far deeper than anything else here (tens of thousands of levels, grown upwards so that building stays linear):
    the walker works on root paths, which are computed with a loop - depth is no reason for anything but the answer."""
    make = nodes.factory(case["cls"])
    depth = case["depth"]
    chain = [make(0)]  # chain[0] is the deepest node
    for i in range(1, depth):
        top = make(i)
        chain[-1].parent = top
        chain.append(top)
    leaf, root, mid = chain[0], chain[-1], chain[depth // 2]
    other = make(depth + 1)
    walker = Walker()
    for a, b, up, common, down in ((leaf, root, depth - 1, root, 0), (root, leaf, 0, root, depth - 1), (leaf, mid, depth // 2, mid, 0), (mid, mid, 0, mid, 0)):
        got = walker.walk(a, b)
        if len(got[0]) != up or got[1] is not common or len(got[2]) != down:
            raise Violation("common", "chain of %d nodes: walk gives %d up, %d down, common %s - expected %d up, %d down" % (depth, len(got[0]), len(got[2]), "right" if got[1] is common else "WRONG", up, down))
        if up and (got[0][0] is not a or got[0][-1].parent is not common):
            raise Violation("upwards", "chain of %d nodes: upwards does not lead from the start node to below the common node" % depth)
        if down and (got[2][-1] is not b or got[2][0].parent is not common):
            raise Violation("downwards", "chain of %d nodes: downwards does not lead from below the common node to the end node" % depth)
    for a, b in ((leaf, other), (other, leaf)):
        try:
            walker.walk(a, b)
            raise Violation("walkerror-missing", "chain of %d nodes: walking to a node of another tree returned something" % depth)
        except WalkError:
            pass
    acc.evaluations += 5
    acc.nontrivial(True)
    acc.tag("chains_of_tens_of_thousands_of_levels")


def check_vee(case, acc):
    """Two long branches that fork directly at the root (a deep 'V'), plus twigs: pairs across the fork at many depths."""
    from .. import big

    make = nodes.factory(case["cls"])
    root, left, right, twigs = big.build_double_ladder(make, case["depth"], twig_every=40)
    trunk = []
    if case.get("trunk"):
        # ... or below a trunk: the fork sits deep down, the two paths share a long prefix
        trunk = big.build_chain(lambda i: make(10 ** 6 + i), case["trunk"], "parent")
        root.parent = trunk[-1]
    labels = forest.Labels(trunk + [root] + left + right + twigs)
    picks_l = [left[i] for i in (0, 1, 62, 63, 64, 65, 127, 128, case["depth"] - 1)] + twigs[:2]
    picks_r = [right[i] for i in (0, 2, 62, 63, 64, 66, 129, case["depth"] - 1)] + [root]
    nontrivial = 0
    for a in picks_l:
        for b in picks_r:
            nontrivial += bool(check_pair(a, b, labels))
            nontrivial += bool(check_pair(b, a, labels))
    acc.evaluations += 2 * len(picks_l) * len(picks_r) - 1
    acc.nontrivial(nontrivial > 0)
    acc.tag("deep_vee_cases")


OPT_SCRIPT = r"""
import sys
from anytree import Node, Walker, WalkError, PreOrderIter, PostOrderIter, LevelOrderIter, LevelOrderGroupIter, ZigZagGroupIter
root = Node("r"); a = Node("a", parent=root); b = Node("b", parent=root); c = Node("c", parent=a); d = Node("d", parent=a); e = Node("e", parent=b)
other = Node("o")
def names(seq): return [n.name for n in seq]
out = []
w = Walker()
for s, t, want in ((c, e, (["c", "a"], "r", ["b", "e"])), (root, d, ([], "r", ["a", "d"])), (d, d, ([], "d", [])), (e, a, (["e", "b"], "r", ["a"]))):
    up, common, down = w.walk(s, t)
    if (names(up), common.name, names(down)) != want: out.append("walk(%s,%s)=%r" % (s.name, t.name, (names(up), common.name, names(down))))
try:
    w.walk(c, other); out.append("no WalkError")
except WalkError:
    pass
if names(PreOrderIter(root)) != list("racdbe"): out.append("pre %r" % names(PreOrderIter(root)))
if names(PostOrderIter(root)) != list("cdaebr"): out.append("post %r" % names(PostOrderIter(root)))
if names(LevelOrderIter(root)) != list("rabcde"): out.append("level %r" % names(LevelOrderIter(root)))
if [names(g) for g in LevelOrderGroupIter(a)] != [["a"], ["c", "d"]]: out.append("group")
if [names(g) for g in ZigZagGroupIter(root)] != [["r"], ["b", "a"], ["c", "d", "e"]]: out.append("zigzag %r" % [names(g) for g in ZigZagGroupIter(root)])
if [names(g) for g in ZigZagGroupIter(a, maxlevel=2)] != [["a"], ["d", "c"]]: out.append("zigzag2")
print("SAME" if not out else "DIFFERENT " + "; ".join(out))
"""


def check_optimised(case, acc):
    """The same library in an interpreter started with -O / -OO (assert statements are compiled away): nothing the
    operations need may live inside an assert."""
    import os
    import subprocess
    import sys

    from .. import core

    env = dict(os.environ, PYTHONPATH=core.REPO, ANYTREE_ASSERTIONS=case["assertions_env"])
    env.pop("PYTHONOPTIMIZE", None)
    proc = subprocess.run([sys.executable, case["flag"], "-c", OPT_SCRIPT], env=env, stdout=subprocess.PIPE, stderr=subprocess.PIPE, text=True, timeout=120)
    out = proc.stdout.strip()
    if out != "SAME":
        raise Violation("optimised-interpreter", "under python %s (ANYTREE_ASSERTIONS=%s) walks/iterations go wrong: %s %s" % (case["flag"], case["assertions_env"], out, proc.stderr.strip()[-400:]))
    acc.nontrivial(True)
    acc.tag("runs_in_an_optimised_interpreter")


def check_case(case, acc):
    if case.get("kind") == "optimised":
        return check_optimised(case, acc)
    if case.get("kind") == "vee":
        return check_vee(case, acc)
    if case.get("kind") == "abyss":
        return check_abyss(case, acc)
    if case.get("kind") == "links":
        return check_links(case, acc)
    if case.get("kind") == "deep":
        return check_deep(case, acc)
    make = nodes.factory(case["cls"])
    tree = forest.build_tree(case["shape"], make)
    other = forest.build_tree(case.get("other", [[]]), make)
    labels = forest.Labels(tree + other)
    intended = shapes.shape_to_parents(forest.to_tuple(case["shape"]))
    problem = refs.links_problem(tree, intended)
    if problem:
        raise Violation("structure", "after building the tree: %s" % problem)
    pairs = case.get("pairs")
    if pairs is None:
        pairs = [(a, b) for a in range(len(tree)) for b in range(len(tree))]
    nontrivial = 0
    for a, b in pairs:
        if check_pair(tree[a], tree[b], labels):
            nontrivial += 1
    # cross-tree pairs raise WalkError, in both directions
    cross = case.get("cross")
    if cross is None:
        cross = [(a, b) for a in range(len(tree)) for b in range(len(other))]
    if case["cls"] == "BoomRepr":
        cross = []  # the WalkError message shows both nodes; this class cannot be shown
    for a, b in cross:
        for x, y in ((tree[a], other[b]), (other[b], tree[a])):
            try:
                Walker().walk(x, y)
            except WalkError:
                pass
            else:
                raise Violation("walkerror", "walk across trees did not raise WalkError")
    # read - mutate - read again on the same node objects
    for op in case.get("mutations", []):
        refs.mutate_tree(tree, op)
        refs.model_apply(intended, op)
        problem = refs.links_problem(tree, intended)
        if problem:
            raise Violation("structure", "after %s: %s" % (op, problem))
        for a, b in pairs:
            if check_pair(tree[a], tree[b], labels):
                nontrivial += 1
        acc.tag("pairs_rechecked_after_mutation", len(pairs))
    acc.evaluations += len(pairs) * (1 + len(case.get("mutations", []))) + 2 * len(cross) - 1  # one evaluation = one walk() call that is checked
    acc.tag("pairs", len(pairs))
    acc.tag("cross_pairs", 2 * len(cross))
    acc.tag("nontrivial_pairs", nontrivial)
    acc.nontrivial(nontrivial > 0)
    if case.get("enumerated"):
        # count distinct non-trivial (shape, start, end) triples: the case itself is counted once by the
        # accumulator, the remaining triples of this enumerated shape are added here
        acc.nontrivial_enum += max(nontrivial - 1, 0)


def _enum_cases(max_nodes, index, count):
    k = 0
    for shape in shapes.trees_upto(max_nodes):
        k += 1
        if k % count == index:
            size = shapes.shape_size(shape)
            # every enumerated shape is also re-checked after moving its last node under the root's first child and after detaching node 1
            yield {"shape": forest.to_list(shape), "other": [[], [[]]], "cls": ("Node", "EqNode", "SlotLM", "FalsyNode", "Node", "EqSlotLM", "LenNode", "TupleNameNode", "ListNode", "TupleNode", "BoomRepr", "StrBoom", "SlotStoreNM")[k % 13], "enumerated": True, "mutations": [["move", size - 1, 1], ["detach", 1], ["move", 0, size - 1]] if size >= 3 else []}


@st.composite
def random_cases(draw):
    shape = draw(strategies.tree_shapes(max_nodes=60, min_nodes=8))
    size = shapes.shape_size(forest.to_tuple(shape))
    other = draw(strategies.tree_shapes(max_nodes=6))
    osize = shapes.shape_size(forest.to_tuple(other))
    idx = st.integers(0, size - 1)
    pairs = draw(st.lists(st.tuples(idx, idx).map(list), min_size=1, max_size=30))
    cross = draw(st.lists(st.tuples(idx, st.integers(0, osize - 1)).map(list), min_size=1, max_size=5))
    return {"shape": shape, "other": other, "pairs": pairs, "cross": cross, "cls": draw(st.sampled_from(nodes.TREE_CLASSES + ["BoomRepr", "StrBoom"])), "mutations": draw(strategies.tree_mutations())}


def plan(tier, seed):
    nshards = 16
    max_nodes = 7 if tier == "quick" else 10
    examples = 150 if tier == "quick" else 3000
    tasks = [{"engine": "enum", "max_nodes": max_nodes, "index": i, "count": nshards * 2} for i in range(nshards * 2)]
    tasks += [{"engine": "hyp", "examples": examples, "seed": seed * 1000 + i} for i in range(nshards)]
    tasks += [{"engine": "deep", "depth": d, "cls": c} for d in ((700, 1500) if tier == "quick" else (300, 700, 1500, 3000)) for c in ("Node", "SlotLM", "AnyNode")]
    tasks += [{"engine": "vee", "depth": d, "cls": c, "trunk": t} for d in ((300,) if tier == "quick" else (140, 300, 1200)) for c in ("Node", "SlotLM", "EqNode", "EqSlotLM", "LenNode") for t in ((0, 70) if tier == "quick" else (0, 31, 70, 200))]
    tasks += [{"engine": "optimised"}, {"engine": "links"}]
    tasks += [{"engine": "abyss", "depth": d, "cls": c} for d in ((70000, 140000) if tier == "quick" else (40000, 70000, 140000, 300000)) for c in ("Node", "SlotLM")]
    return tasks


def run_task(task, acc):
    if task["engine"] == "links":
        case = {"kind": "links"}
        exc = acc.evaluate(check_case, case, enumerated=False)
        if exc is not None:
            acc.add_violation(case, exc)
        return
    if task["engine"] == "abyss":
        case = {"kind": "abyss", "depth": task["depth"], "cls": task["cls"]}
        exc = acc.evaluate(check_case, case, enumerated=False)
        if exc is not None:
            acc.add_violation(case, exc)
        return
    if task["engine"] == "vee":
        case = {"kind": "vee", "depth": task["depth"], "cls": task["cls"], "trunk": task.get("trunk", 0)}
        exc = acc.evaluate(check_case, case, enumerated=False)
        if exc is not None:
            acc.add_violation(case, exc)
        return
    if task["engine"] == "optimised":
        for flag in ("-O", "-OO"):
            for env in ("0", "1"):
                case = {"kind": "optimised", "flag": flag, "assertions_env": env}
                exc = acc.evaluate(check_case, case, enumerated=False)
                if exc is not None:
                    acc.add_violation(case, exc)
                    return
        return
    if task["engine"] == "deep":
        case = {"kind": "deep", "depth": task["depth"], "every": 97, "cls": task["cls"]}
        exc = acc.evaluate(check_case, case, enumerated=False)
        if exc is not None:
            acc.add_violation(case, exc)
        return
    if task["engine"] == "enum":
        acc.run_enum(check_case, _enum_cases(task["max_nodes"], task["index"], task["count"]))
    else:
        acc.run_hypothesis(check_case, random_cases(), task["examples"], task["seed"])


def evidence_extra(total, tier):
    return {"exhaustive_subdomain": "every ordered pair of nodes of every ordered tree shape with <= %d nodes" % (7 if tier == "quick" else 10)}
