"""C17 - tree operations use node identity only, never user-defined special methods."""
import collections
import collections.abc
import json

from hypothesis import strategies as st

from anytree import LightNodeMixin, Node, NodeMixin, RenderTree, SymlinkNode, cachedsearch
from anytree.exporter import DictExporter, DotExporter, JsonExporter, MermaidExporter, UniqueDotExporter

from .. import mut
from ..core import Violation
from .c18 import observe, outcome, safe

PROP_ID = "C17"
LEVEL = "exploration"
SPECIALS = ["__eq__", "__ne__", "__lt__", "__le__", "__gt__", "__ge__", "__hash__", "__bool__", "__len__", "__iter__", "__contains__", "__getitem__"]
RULE = (
    "cases ('programs') = a generated node class: base in {Node, a NodeMixin class, a slotted LightNodeMixin class}, and for each of the 12 "
    "special methods __eq__ __ne__ __lt__ __le__ __gt__ __ge__ __hash__ __bool__ __len__ __iter__ __contains__ __getitem__ one behaviour in "
    "{absent, adversarial constant A, adversarial constant B, raising, (for __hash__) unhashable}; optionally registered as a virtual subclass of collections.abc classes (Mapping, Sequence, Set, ...); a per-node mask saying which nodes of the "
    "universe are instances of the generated class; an initial forest; a history of structural calls (incl. refused ones). The same script runs "
    "on a plain class of the same base and name; every call outcome, every forest snapshot and afterwards every read-only API result "
    "(navigation attributes, util helpers, five iterators with filter/stop/maxlevel, findall/find_by_attr, Walker on all pairs, Resolver "
    "get/glob incl. '**' and '..', RenderTree rows/str/by_attr, Dot/UniqueDot/Mermaid lines, Dict/Json export) is compared as label-mapped "
    "values, and the generated methods' invocation counters must stay 0. Systematic part: each single method x each behaviour x 3 bases on a "
    "fixed script. Non-trivial = class overriding >= 2 methods on a forest with a node that has >= 2 children."
    ' Also: cachedsearch calls among the compared queries.'
    " Also: more '**'/'..' glob patterns, SymlinkNodes pointing at generated nodes."
    ' Round 12: importers with the adversarial class as nodecls.'
)
ASSUMPTIONS = [
    "the harness itself touches nodes only through 'is', id() and attribute access, so every counted invocation comes from the library",
    "differential oracle: the plain class of the same base is the reference",
]


class NMBase(NodeMixin):
    def __init__(self, name):
        self.name = name

    def __repr__(self):
        return "Gen(%s)" % (self.name,)


class LMBase(LightNodeMixin):
    __slots__ = ("name",)

    def __init__(self, name):
        self.name = name

    def __repr__(self):
        return "Gen(%s)" % (self.name,)


class ListBase(Node, list):
    """A node class that is also a list (empty): the built-in container protocol instead of hand-written methods."""


class TupleBase(NodeMixin, tuple):
    def __new__(cls, name):
        return tuple.__new__(cls, (name, "payload"))  # a record with two fields (len != 1: a lone node is not a valid %-format argument tuple)

    def __init__(self, name):
        self.name = name

    def __repr__(self):
        return "Gen(%s)" % (self.name,)


BASES = {"Node": Node, "NMBase": NMBase, "LMBase": LMBase, "ListBase": ListBase, "TupleBase": TupleBase}
# the reference universe of a container-derived base is built from the corresponding ordinary base
PLAIN_BASE = {"ListBase": Node, "TupleBase": NMBase}


class Boom(Exception):
    pass


def make_method(name, behaviour, calls):
    const_a = {"__eq__": True, "__ne__": False, "__lt__": True, "__le__": True, "__gt__": True, "__ge__": True, "__hash__": 1, "__bool__": False, "__len__": 0, "__contains__": True, "__getitem__": None}
    const_b = {"__eq__": False, "__ne__": True, "__lt__": False, "__le__": False, "__gt__": False, "__ge__": False, "__hash__": 7, "__bool__": True, "__len__": 3, "__contains__": False, "__getitem__": 5}

    def method(self, *args):
        calls[name] += 1
        if behaviour == "raise":
            raise Boom(name)
        if name == "__iter__":
            return iter(()) if behaviour == "A" else iter((1, 2))
        if name == "__getitem__" and behaviour == "A":
            raise IndexError(args[0])
        return (const_a if behaviour == "A" else const_b)[name]

    method.__name__ = name
    return method


def make_classes(case):
    base = BASES[case["base"]]
    calls = collections.Counter()
    ns = {}
    for name, behaviour in case["methods"].items():
        if behaviour == "unhashable":
            ns["__hash__"] = None
        else:
            ns[name] = make_method(name, behaviour, calls)
    plain_ns = {}
    if case["base"] == "LMBase":
        ns["__slots__"] = ()
        plain_ns["__slots__"] = ()
    adv = type("Gen", (base,), ns)
    for abc_name in case.get("abcs", []):
        # the generated class declares itself a Mapping / Sequence / Set ... (virtual subclass, as tests/test_special_methods_access.py does)
        getattr(collections.abc, abc_name).register(adv)
    plain = type("Gen", (PLAIN_BASE.get(case["base"], base),), plain_ns)
    return adv, plain, calls


def build(classes, state, route="parent"):
    rec = mut.Recorder()
    mut.CURRENT[0] = rec
    universe = [cls("n%d" % i) for i, cls in enumerate(classes)]
    for node in universe:
        rec.labels.add(node)
    rec.universe = universe
    mut._arrange(universe, state, route)
    return rec, universe


def extra_observe(universe, labels, dict_based):
    out = {}
    for i, node in enumerate(universe):
        if node.parent is not None:
            continue
        o = {}
        stop = lambda n: labels.label(n) % 4 == 3  # noqa: E731
        filt = lambda n: labels.label(n) % 5 != 4  # noqa: E731
        # a SymlinkNode pointing at the node forwards attribute reads - without asking the target whether it is "true" or how long it is
        link = SymlinkNode(node)
        o["link-name"] = safe(lambda: link.name)
        o["link-missing"] = safe(lambda: getattr(link, "no_such_attribute", "absent"))
        o["link-by_attr"] = safe(lambda: RenderTree(link).by_attr("name"))
        o["cachedsearch-findall"] = safe(lambda: labels.labels(cachedsearch.findall(node, filter_=filt)))
        o["cachedsearch-findall_by_attr"] = safe(lambda: labels.labels(cachedsearch.findall_by_attr(node, "n1")))
        o["cachedsearch-find_by_attr"] = safe(lambda: labels.label(cachedsearch.find_by_attr(node, "n0")))
        o["cachedsearch-find"] = safe(lambda: labels.label(cachedsearch.find(node, lambda n: labels.label(n) == 2)))
        o["dot"] = list(DotExporter(node))
        o["dot-restricted"] = list(DotExporter(node, filter_=filt, stop=stop, maxlevel=3))
        o["uniquedot"] = list(UniqueDotExporter(node, filter_=filt))
        o["mermaid"] = list(MermaidExporter(node, stop=stop))
        if dict_based:
            o["dict"] = json.dumps(DictExporter().export(node), sort_keys=True)
            o["json"] = JsonExporter(sort_keys=True).export(node)
        out[i] = o
    return out


def check_case(case, acc):
    adv, plain, calls = make_classes(case)
    n = case["n"]
    mask = case.get("mask") or [True] * n
    state = case.get("state") or mut.all_roots(n)
    classes_a = [adv if mask[i % len(mask)] else plain for i in range(n)]
    rec_a, uni_a = build(classes_a, state, case.get("route", "parent"))
    rec_b, uni_b = build([plain] * n, state, case.get("route", "parent"))
    if calls:
        raise Violation("special-method-invoked", "building the forest invoked %s" % dict(calls))
    for item in case["steps"]:
        op = item["op"]
        res = []
        if op[0] == "ctor":
            # a new node created through the class constructor with parent= an existing (possibly falsy / equal-comparing) node
            plabel = op[1] % len(uni_a)
            outs = []
            for rec, uni, cls in ((rec_a, uni_a, adv if op[2] else plain), (rec_b, uni_b, plain)):
                mut.CURRENT[0] = rec
                try:
                    if case["base"] in ("Node", "ListBase"):
                        new = cls("n%d" % len(uni), parent=uni[plabel])
                    else:
                        new = cls("n%d" % len(uni))
                        new.parent = uni[plabel]
                    exc = None
                except Exception as e:  # noqa: BLE001
                    new, exc = cls("n%d" % len(uni)), e
                rec.labels.add(new)
                uni.append(new)
                outs.append((outcome(exc), mut.snapshot(uni, rec.labels)))
            if outs[0] != outs[1]:
                raise Violation("constructor", "constructing a node with parent=%d: generated class %s, plain class %s (class overrides %s)" % (plabel, outs[0], outs[1], case["methods"]))
            if calls:
                raise Violation("special-method-invoked", "constructor with parent= invoked %s" % dict(calls))
            continue
        for rec, uni in ((rec_a, uni_a), (rec_b, uni_b)):
            mut.CURRENT[0] = rec
            pre = mut.snapshot(uni, rec.labels)
            exc = mut.execute(uni, op)
            res.append((outcome(exc), mut.snapshot(uni, rec.labels), pre, exc))
        ctx = "%s on %s (class overrides %s)" % (op, res[1][2], case["methods"])
        if res[0][0] != res[1][0]:
            raise Violation("outcome", "%s: generated class %s (%s), plain class %s" % (ctx, res[0][0], res[0][3], res[1][0]))
        if res[0][1] != res[1][1]:
            raise Violation("structure", "%s: generated class -> %s, plain class -> %s" % (ctx, res[0][1], res[1][1]))
        if calls:
            raise Violation("special-method-invoked", "%s invoked %s" % (ctx, dict(calls)))
    dict_based = case["base"] in ("Node", "NMBase", "ListBase")
    mut.CURRENT[0] = rec_a
    obs_a = observe(uni_a, rec_a.labels)
    ext_a = extra_observe(uni_a, rec_a.labels, dict_based)
    mut.CURRENT[0] = rec_b
    obs_b = observe(uni_b, rec_b.labels)
    ext_b = extra_observe(uni_b, rec_b.labels, dict_based)
    forest_now = mut.snapshot(uni_b, rec_b.labels)
    for got, want in ((obs_a, obs_b), (ext_a, ext_b)):
        for i in want:
            for key in want[i]:
                if got.get(i, {}).get(key) != want[i][key]:
                    raise Violation("query:" + key.split(":")[0], "node %s %s: generated class %r, plain class %r (forest %s, class overrides %s)" % (i, key, got.get(i, {}).get(key), want[i][key], forest_now, case["methods"]))
    if calls:
        raise Violation("special-method-invoked", "read-only queries invoked %s (class overrides %s)" % (dict(calls), case["methods"]))
    if case["base"] in ("Node", "ListBase"):
        # trees BUILT by the library from a document (DictImporter / JsonImporter with nodecls): the importer's result is the
        # root, whatever the nodes say about their truth value, length or equality
        from anytree.importer import DictImporter, JsonImporter

        doc = {"name": "root", "children": [{"name": "a", "children": [{"name": "a1"}, {"name": "a2"}]}, {"name": "b"}]}
        shapes_seen = []
        for cls in (adv, plain):
            for how in ("dict", "json"):
                try:
                    root = DictImporter(nodecls=cls).import_(doc) if how == "dict" else JsonImporter(dictimporter=DictImporter(nodecls=cls)).import_(json.dumps(doc))
                    todo, names = [root], []
                    if root.parent is not None:
                        names.append("result has a parent")
                    while todo:
                        cur = todo.pop()
                        names.append(str(cur.name))
                        todo.extend(reversed(cur.children))
                    shapes_seen.append(("ok", names))
                except Exception as exc:  # noqa: BLE001 - exception classes are compared
                    shapes_seen.append((type(exc).__name__, None))
        if shapes_seen[0] != shapes_seen[2] or shapes_seen[1] != shapes_seen[3]:
            raise Violation("query:import", "importing %r with nodecls: generated class %r, plain class %r (class overrides %s)" % (doc, shapes_seen[:2], shapes_seen[2:], case["methods"]))
        if calls:
            raise Violation("special-method-invoked", "importing a document invoked %s (class overrides %s)" % (dict(calls), case["methods"]))
    wide = any(len(kids) >= 2 for _, kids in forest_now)
    acc.nontrivial(len(case["methods"]) >= 2 and wide)
    acc.tag("base:" + case["base"])
    acc.tag("methods_overridden", len(case["methods"]))
    acc.tag("mixed_plain_and_generated_nodes", not all(mask[i % len(mask)] for i in range(n)))


BEHAVIOURS = ["A", "B", "raise"]
ABCS = ["Mapping", "MutableMapping", "Sequence", "MutableSequence", "Set", "Container", "Sized", "Iterable", "Iterator", "Hashable", "Callable", "Collection"]
FIXED_STATE = [[None, [1, 2, 3]], [0, [4]], [0, []], [0, []], [1, []], [None, []]]
FIXED_STEPS = [{"op": ["ctor", 2, True]}, {"op": ["ctor", 0, True]}, {"op": ["parent", 5, 2]}, {"op": ["children", 0, [3, 1, 2], "list"]}, {"op": ["parent", 0, 4]}, {"op": ["children", 1, [4, 4], "list"]}, {"op": ["parent", 2, None]}, {"op": ["parent", 2, 0]}, {"op": ["del", 5]}]


def _systematic_cases(index, count):
    k = 0
    for base in ("ListBase", "TupleBase"):
        # no hand-written methods needed: list/tuple bring their own __eq__/__len__/__iter__/__contains__/__getitem__
        k += 1
        if k % count == index:
            yield {"base": base, "methods": {}, "n": 6, "state": FIXED_STATE, "steps": FIXED_STEPS}
    for base in ("LMBase", "NMBase", "Node"):
        for name in SPECIALS:
            for behaviour in BEHAVIOURS + (["unhashable"] if name == "__hash__" else []):
                k += 1
                if k % count == index:
                    yield {"base": base, "methods": {name: behaviour}, "n": 6, "state": FIXED_STATE, "steps": FIXED_STEPS}
        for behaviour in BEHAVIOURS:
            k += 1
            if k % count == index:
                yield {"base": base, "methods": {name: behaviour for name in SPECIALS}, "n": 6, "state": FIXED_STATE, "steps": FIXED_STEPS, "mask": [True, False, True]}
            k += 1
            if k % count == index:
                yield {"base": base, "methods": {name: behaviour for name in SPECIALS}, "n": 6, "state": FIXED_STATE, "steps": FIXED_STEPS}
            for abc_name in ABCS:
                k += 1
                if k % count == index:
                    yield {"base": base, "methods": {name: behaviour for name in SPECIALS}, "abcs": [abc_name], "n": 6, "state": FIXED_STATE, "steps": FIXED_STEPS}


@st.composite
def random_cases(draw):
    base = draw(st.sampled_from(sorted(BASES)))
    names = draw(st.lists(st.sampled_from(SPECIALS), min_size=0 if base in PLAIN_BASE else 1, max_size=12, unique=True))
    if base in PLAIN_BASE:
        names = [n for n in names if n != "__hash__"]
    methods = {}
    for name in names:
        methods[name] = draw(st.sampled_from(BEHAVIOURS + (["unhashable"] if name == "__hash__" else [])))
    hist = draw(mut.history_strategy(max_nodes=8, max_steps=12, faults="none", invalid=False, class_specs=["Node"]))
    steps = [{"op": s["op"]} for s in hist["steps"]]
    for _ in range(draw(st.integers(0, 2))):
        steps.insert(draw(st.integers(0, len(steps))), {"op": ["ctor", draw(st.integers(0, 7)), draw(st.booleans())]})
    case = {"base": base, "methods": methods, "n": hist["n"], "steps": steps}
    if draw(st.booleans()):
        case["abcs"] = draw(st.lists(st.sampled_from(ABCS), min_size=1, max_size=3, unique=True))
    if "state" in hist:
        case["state"] = hist["state"]
        case["route"] = hist["route"]
    if draw(st.booleans()):
        case["mask"] = draw(st.lists(st.booleans(), min_size=2, max_size=4))
    return case


def plan(tier, seed):
    nshards = 16
    examples = 150 if tier == "quick" else 4000
    tasks = [{"engine": "systematic", "index": i, "count": nshards} for i in range(nshards)]
    tasks += [{"engine": "hyp", "examples": examples, "seed": seed * 1000 + i} for i in range(nshards)]
    return tasks


def run_task(task, acc):
    if task["engine"] == "systematic":
        acc.run_enum(check_case, _systematic_cases(task["index"], task["count"]))
    else:
        acc.run_hypothesis(check_case, random_cases(), task["examples"], task["seed"])
