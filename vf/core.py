"""Framework core: accumulators, sharded execution, Hypothesis driver, evidence and replay files.

Conventions
-----------
* A *case* is a JSON-serialisable dict that fully determines one execution of a
  property's oracle (``check_case(case, acc)`` in the property module).
* ``check_case`` raises :class:`Violation` when the property is violated.  Any
  other exception escaping from ``check_case`` is reported as a violation too
  (clause ``unexpected-exception``): the harness is run many times on the
  unchanged tree, where it must be silent, so an exception there on a changed
  tree reflects changed library behaviour.  Exceptions outside ``check_case``
  (generators, framework) are harness errors (exit code 2).
* Property modules never import anytree at module import time of the *parent*
  process: workers set ``ANYTREE_ASSERTIONS`` first and import afterwards.
"""
from __future__ import annotations

import collections
import hashlib
import json
import multiprocessing
import os
import sys
import time
import traceback

ROOT = os.path.dirname(os.path.dirname(os.path.abspath(__file__)))
REPO = os.environ.get("VERIF_REPO", "/repo")
NPROC = int(os.environ.get("VERIF_NPROC", "16"))
MAX_VIOLATIONS_PER_SHARD = 5
MAX_VIOLATING_CASES_PER_SHARD = 40
SHRINK_BUDGET = float(os.environ.get("VERIF_SHRINK_BUDGET", "20"))  # seconds of shrinking per shard after the first failure


def seed_value():
    try:
        return int(os.environ.get("VERIF_SEED", "1"))
    except ValueError:
        return 1


class Violation(Exception):
    """The property does not hold for the current case."""

    def __init__(self, clause, detail=""):
        super().__init__("%s: %s" % (clause, detail))
        self.clause = clause
        self.detail = detail


class CaseTimeout(BaseException):
    """A single case ran longer than CASE_TIMEOUT seconds (normal cases take milliseconds)."""


CASE_TIMEOUT = float(os.environ.get("VERIF_CASE_TIMEOUT", "15"))


def _on_alarm(signum, frame):
    raise CaseTimeout()


def arm(seconds=None):
    """(Re)start the per-case watchdog; 0 disarms it."""
    import signal

    signal.setitimer(signal.ITIMER_REAL, CASE_TIMEOUT if seconds is None else seconds)


class HarnessError(Exception):
    """Something is wrong with the harness itself (never a violation)."""


def case_hash(case):
    data = json.dumps(case, sort_keys=True, default=repr, separators=(",", ":"))
    return int.from_bytes(hashlib.blake2b(data.encode("utf-8", "surrogatepass"), digest_size=8).digest(), "big")


def jsonable(obj):
    """Best-effort conversion of a case into something json.dump accepts."""
    try:
        json.dumps(obj)
        return obj
    except (TypeError, ValueError):
        pass
    if isinstance(obj, dict):
        return {str(k): jsonable(v) for k, v in obj.items()}
    if isinstance(obj, (list, tuple)):
        return [jsonable(v) for v in obj]
    if isinstance(obj, (set, frozenset)):
        return sorted((jsonable(v) for v in obj), key=repr)
    return repr(obj)


class Acc:
    """Per-shard accumulator of what a run covered."""

    def __init__(self):
        self.evaluations = 0
        self.nontrivial_enum = 0  # enumerated cases are distinct by construction
        self.nontrivial_hashes = set()  # generated cases: distinct by hash
        self.tags = collections.Counter()
        self.known = collections.Counter()
        self.known_examples = {}
        self.samples = []
        self._sample_next = 1
        self.violations = []
        self.notes = collections.Counter()
        self.timeouts = 0
        # state of the case being evaluated
        self._cur_nontrivial = False
        self._cur_tags = None
        self.last_failure = None

    # --- API for check_case -------------------------------------------------
    def nontrivial(self, flag=True):
        if flag:
            self._cur_nontrivial = True

    def tag(self, name, n=1):
        self.tags[name] += n

    def known_finding(self, kf_id, case=None):
        self.known[kf_id] += 1
        if case is not None and kf_id not in self.known_examples:
            self.known_examples[kf_id] = jsonable(case)

    def note(self, name, n=1):
        self.notes[name] += n

    # --- drivers ------------------------------------------------------------
    def evaluate(self, check_case, case, enumerated):
        """Run one case.  Returns None or the Violation/exception raised."""
        self.evaluations += 1
        self._cur_nontrivial = False
        try:
            arm()
            try:
                check_case(case, self)
            finally:
                arm(0)
        except Violation as exc:
            return exc
        except CaseTimeout:
            self.timeouts += 1
            return Violation("non-termination", "the case did not finish within %.0f s (comparable cases take milliseconds): a library call loops or recurses without bound" % CASE_TIMEOUT)
        except Exception as exc:  # noqa: BLE001 - see module docstring
            tb = traceback.format_exc(limit=-6)
            return Violation("unexpected-exception", "%s: %s\n%s" % (type(exc).__name__, exc, tb))
        if self._cur_nontrivial:
            if enumerated:
                self.nontrivial_enum += 1
            else:
                self.nontrivial_hashes.add(case_hash(case))
            count = self.nontrivial_enum + len(self.nontrivial_hashes)
            if count >= self._sample_next and len(self.samples) < 12:
                self.samples.append(jsonable(case))
                self._sample_next = max(self._sample_next * 4, count + 1)
        return None

    def add_violation(self, case, exc):
        self.violations.append({"clause": exc.clause, "detail": str(exc.detail)[:4000], "case": jsonable(case)})

    def run_enum(self, check_case, cases):
        for case in cases:
            if stop_requested():
                # another shard of this run has already reported a violation: the verdict is settled, do not burn the budget
                self.note("shards_cut_short_after_a_violation_elsewhere")
                break
            exc = self.evaluate(check_case, case, enumerated=True)
            if exc is not None:
                if not any(v["clause"] == exc.clause for v in self.violations):
                    self.add_violation(case, exc)
                self.tags["violating_cases"] += 1
                if len(self.violations) >= MAX_VIOLATIONS_PER_SHARD or self.tags["violating_cases"] >= MAX_VIOLATING_CASES_PER_SHARD or exc.clause == "non-termination":
                    break

    def run_hypothesis(self, check_case, strategy, max_examples, seed, shrink=True):
        """Drive check_case with a Hypothesis strategy; the shrunk failing case is recorded."""
        import hypothesis
        from hypothesis import HealthCheck, Phase, given, settings

        acc = self
        holder = {}

        def body(case):
            if holder.get("abort"):
                raise KeyboardInterrupt()  # makes Hypothesis stop at once; caught below
            if "failure" not in holder and stop_requested():
                holder["stopped"] = True
                raise KeyboardInterrupt()
            if "shrink_until" in holder and time.time() > holder["shrink_until"]:
                # shrinking budget used up: keep the smallest failure found so far (the verdict is not affected)
                holder["abort"] = True
                raise KeyboardInterrupt()
            exc = acc.evaluate(check_case, case, enumerated=False)
            if exc is not None:
                holder["failure"] = (case, exc)
                holder.setdefault("shrink_until", time.time() + SHRINK_BUDGET)
                if exc.clause == "non-termination":
                    # do not shrink through hanging cases: keep this one and make Hypothesis stop
                    holder["abort"] = True
                raise exc

        phases = [Phase.generate, Phase.target]
        if shrink:
            phases.append(Phase.shrink)
        test = given(strategy)(body)
        test = hypothesis.seed(seed)(test)
        test = settings(
            max_examples=max_examples,
            database=None,
            deadline=None,
            derandomize=False,
            report_multiple_bugs=False,
            print_blob=False,
            phases=phases,
            suppress_health_check=[HealthCheck.too_slow, HealthCheck.data_too_large, HealthCheck.large_base_example],
        )(test)
        try:
            test()
        except Violation:
            case, exc = holder["failure"]
            self.add_violation(case, exc)
        except KeyboardInterrupt:
            if holder.get("stopped") and "failure" not in holder:
                self.note("shards_cut_short_after_a_violation_elsewhere")
                return
            if not holder.get("abort"):
                raise
            case, vexc = holder["failure"]
            self.add_violation(case, vexc)
        except hypothesis.errors.FailedHealthCheck as exc:
            raise HarnessError("hypothesis health check: %s" % exc)
        except hypothesis.errors.Flaky as exc:
            # the oracle or the library is not deterministic for this case: report what we have
            if "failure" in holder:
                case, vexc = holder["failure"]
                note = "" if holder.get("abort") else "(flaky) "
                self.add_violation(case, Violation(vexc.clause, "%s%s" % (note, vexc.detail)))
            else:
                raise HarnessError("hypothesis flaky without recorded failure: %s" % exc)
        except Exception as exc:  # noqa: BLE001
            # an internal error of the test library while it was SHRINKING a failure (seen with 6.168: 'ValueError: 103 is
            # not in list' in choice_to_index): the failing case itself was judged by check_case and stands; it is reported
            # as it is, not as small as it could be
            if "failure" not in holder:
                raise
            case, vexc = holder["failure"]
            self.note("shrinking_ended_by_an_internal_error_of_hypothesis")
            self.add_violation(case, Violation(vexc.clause, "%s\n(not fully shrunk: %s: %s)" % (vexc.detail, type(exc).__name__, exc)))

    # --- merge --------------------------------------------------------------
    def export(self):
        return {
            "evaluations": self.evaluations,
            "nontrivial_enum": self.nontrivial_enum,
            "nontrivial_hashes": self.nontrivial_hashes,
            "tags": dict(self.tags),
            "known": dict(self.known),
            "known_examples": self.known_examples,
            "samples": self.samples,
            "violations": self.violations,
            "notes": dict(self.notes),
        }


class Total:
    def __init__(self):
        self.evaluations = 0
        self.nontrivial_enum = 0
        self.nontrivial_hashes = set()
        self.tags = collections.Counter()
        self.known = collections.Counter()
        self.known_examples = {}
        self.samples = []
        self.violations = []
        self.notes = collections.Counter()
        self.errors = []
        self.tasks = 0

    def merge(self, part):
        self.tasks += 1
        self.evaluations += part["evaluations"]
        self.nontrivial_enum += part["nontrivial_enum"]
        self.nontrivial_hashes |= part["nontrivial_hashes"]
        self.tags.update(part["tags"])
        self.known.update(part["known"])
        for k, v in part["known_examples"].items():
            self.known_examples.setdefault(k, v)
        self.samples.extend(part["samples"])
        self.violations.extend(part["violations"])
        self.notes.update(part["notes"])

    @property
    def distinct_nontrivial(self):
        return self.nontrivial_enum + len(self.nontrivial_hashes)


# ---------------------------------------------------------------------------
# worker side

_WORKER = {}


def _setup_import_path():
    if REPO not in sys.path:
        sys.path.insert(0, REPO)
    deps = os.path.join(ROOT, ".deps")
    if os.path.isdir(deps) and deps not in sys.path:
        sys.path.append(deps)
    if ROOT not in sys.path:
        sys.path.insert(0, ROOT)


def _exit_with_parent():
    """Workers must not outlive a killed parent (an orphaned worker stuck in a non-terminating case burns a core)."""
    import threading

    parent = os.getppid()

    def watch():
        while True:
            time.sleep(2)
            if os.getppid() != parent:
                os._exit(3)

    threading.Thread(target=watch, daemon=True).start()


def stop_requested():
    """True once the parent process has seen a violation from any shard of this run (workers only)."""
    event = _WORKER.get("stop")
    return event is not None and event.is_set()


def _worker_init(prop_id, assertions, stop_event=None):
    _WORKER["stop"] = stop_event
    os.environ["ANYTREE_ASSERTIONS"] = "1" if assertions else "0"
    os.environ.setdefault("PYTHONHASHSEED", "0")
    _setup_import_path()
    import importlib
    import resource
    import signal

    signal.signal(signal.SIGALRM, _on_alarm)
    _exit_with_parent()
    try:  # a runaway case gets MemoryError instead of taking the machine down
        limit = int(os.environ.get("VERIF_MEM_LIMIT_MB", "6000")) * 1024 * 1024
        resource.setrlimit(resource.RLIMIT_AS, (limit, limit))
    except (ValueError, OSError):
        pass

    import anytree.config

    if bool(anytree.config.ASSERTIONS) != bool(assertions):
        raise HarnessError("anytree was imported before the assertion switch was set")
    if not os.path.abspath(anytree.__file__).startswith(os.path.abspath(REPO) + os.sep):
        raise HarnessError("anytree imported from %s, expected %s" % (anytree.__file__, REPO))
    _WORKER["mod"] = importlib.import_module("vf.props.%s" % prop_id.lower())


def _worker_run(task):
    acc = Acc()
    try:
        if task.get("engine") == "replay":
            acc.run_enum(_WORKER["mod"].check_case, [task["case"]])
            acc.tag("regression_replays")
        else:
            _WORKER["mod"].run_task(task, acc)
    except HarnessError as exc:
        return {"error": "HarnessError: %s" % exc, "task": task, "part": acc.export()}
    except CaseTimeout:
        return {"error": "watchdog fired outside a case (generator or framework code hung)", "task": task, "part": acc.export()}
    except Exception:  # noqa: BLE001
        return {"error": traceback.format_exc(), "task": task, "part": acc.export()}
    return {"error": None, "task": task, "part": acc.export()}


def _isolated_entry(conn, prop_id, assertions, task):
    _worker_init(prop_id, assertions, None)
    conn.send(_worker_run(task))
    conn.close()


def run_isolated(ctx, prop_id, assertions, task, timeout=900):
    """Run one task in a process of its own. Returns (result or None, exit code): None = the process died without an answer."""
    parent_conn, child_conn = ctx.Pipe(duplex=False)
    proc = ctx.Process(target=_isolated_entry, args=(child_conn, prop_id, assertions, task))
    proc.start()
    child_conn.close()
    res = None
    try:
        if parent_conn.poll(timeout):
            res = parent_conn.recv()
    except (EOFError, OSError):
        res = None
    proc.join(10)
    if proc.is_alive():
        proc.kill()
        proc.join()
    return res, proc.exitcode


def run_tasks(prop_id, tasks, total):
    """Run tasks grouped by their ``assertions`` setting, each group in its own pool."""
    groups = collections.OrderedDict()
    for task in tasks:
        groups.setdefault(int(task.get("assertions", 0)), []).append(task)
    import concurrent.futures as cf

    import threading

    ctx = multiprocessing.get_context("spawn")
    lock = threading.Lock()
    stop_event = ctx.Event()

    def absorb(res):
        with lock:
            total.merge(res["part"])
            if res["error"]:
                total.errors.append((res["task"], res["error"]))
            if total.violations and not stop_event.is_set():
                # the verdict is settled: shards still running stop at their next case, queued ones return at once
                stop_event.set()

    def run_group(assertions, group):
        # the groups (one per ANYTREE_ASSERTIONS setting) run side by side, each in its own pool of worker processes
        nproc = max(1, min(NPROC if len(groups) == 1 else (NPROC * 3) // 4, len(group)))
        orphaned = []
        with cf.ProcessPoolExecutor(nproc, mp_context=ctx, initializer=_worker_init, initargs=(prop_id, assertions, stop_event)) as pool:
            futures = {pool.submit(_worker_run, task): task for task in sorted(group, key=lambda t: -int(t.get("weight", 1)))}
            for fut in cf.as_completed(futures):
                try:
                    res = fut.result()
                except cf.process.BrokenProcessPool:
                    orphaned.append(futures[fut])  # a worker process died: every unfinished task of the pool ends up here
                    continue
                except Exception as exc:  # noqa: BLE001
                    with lock:
                        total.errors.append((futures[fut], "worker failed: %s: %s" % (type(exc).__name__, exc)))
                    continue
                absorb(res)
        # a worker died (the interpreter itself crashed, e.g. a C stack overflow below a raised recursion limit): every task it
        # took down is run again in a process of its own; a task whose process dies again is the culprit and is reported
        for task in orphaned:
            if stop_event.is_set():
                break
            res, code = run_isolated(ctx, prop_id, assertions, task)
            if res is not None:
                absorb(res)
                continue
            with lock:
                total.violations.append({"clause": "interpreter-crash", "detail": "the interpreter process running task %s died (exit code %s), twice: once in the pool, once alone" % (json.dumps(task, default=repr)[:300], code), "case": {"kind": "crash-task", "task": jsonable(task), "assertions": assertions}})
                stop_event.set()

    threads = [threading.Thread(target=run_group, args=(a, g)) for a, g in groups.items()]
    for th in threads:
        th.start()
    for th in threads:
        th.join()


def run_single(prop_id, assertions, func):
    """Run func(module) in this process after setting up the import path (replay mode)."""
    _worker_init(prop_id, assertions)
    return func(_WORKER["mod"])


# ---------------------------------------------------------------------------
# output

def write_replay(prop_id, violation, directory=None):
    directory = directory or os.environ.get("VERIF_REPLAY_DIR") or os.path.join(ROOT, "replays", "found")
    os.makedirs(directory, exist_ok=True)
    body = {"property": prop_id, "clause": violation["clause"], "detail": violation["detail"], "case": violation["case"]}
    digest = hashlib.sha1(json.dumps(body["case"], sort_keys=True, default=repr).encode("utf-8", "surrogatepass")).hexdigest()[:10]
    path = os.path.join(directory, "%s-%s.json" % (prop_id, digest))
    with open(path, "w", encoding="utf-8") as fh:
        json.dump(body, fh, indent=1, sort_keys=True, ensure_ascii=True)
        fh.write("\n")
    return path


def pick_samples(samples, limit=6):
    if len(samples) <= limit:
        return samples
    step = (len(samples) - 1) / float(limit - 1)
    return [samples[int(round(i * step))] for i in range(limit)]


def write_evidence(prop_id, tier, level, total, rule, assumptions, wall_s, extra=None, exhaustive=None):
    coverage = {
        "evaluations": total.evaluations,
        "distinct_nontrivial": total.distinct_nontrivial,
        "rule": rule,
        "samples": [json.dumps(s, sort_keys=True, separators=(",", ":"), default=repr) for s in pick_samples(total.samples)],
        "distribution": dict(sorted(total.tags.items())),
        "known_findings_observed": dict(sorted(total.known.items())),
        "tasks": total.tasks,
    }
    if total.notes:
        coverage["excluded_or_noted"] = dict(sorted(total.notes.items()))
    if exhaustive is not None:
        coverage["exhaustive"] = bool(exhaustive)
    if extra:
        coverage.update(extra)
    doc = {
        "property_id": prop_id,
        "tier": tier,
        "seed": seed_value(),
        "level": level,
        "coverage": coverage,
        "assumptions": assumptions,
        "wall_s": round(wall_s, 2),
        "violations": len(total.violations),
    }
    # sensitivity runs against scratch copies (tools/mutcheck.py, tools/seedcheck.py) redirect their evidence
    path = os.path.join(os.environ.get("VERIF_EVIDENCE_DIR") or os.path.join(ROOT, "evidence"), "%s.json" % prop_id)
    os.makedirs(os.path.dirname(path), exist_ok=True)
    tmp = path + ".tmp"
    with open(tmp, "w", encoding="utf-8") as fh:
        json.dump(doc, fh, indent=1, ensure_ascii=True)
        fh.write("\n")
    os.replace(tmp, path)
    return path


def load_known_findings():
    path = os.path.join(ROOT, "known_findings.json")
    if not os.path.exists(path):
        return []
    with open(path, encoding="utf-8") as fh:
        return json.load(fh)["findings"]


def open_findings(prop_id):
    return {f["id"]: f for f in load_known_findings() if f["property"] == prop_id and f["status"] == "open"}


def run_fuzz_task(prop_id, task, acc):
    """Thorough-tier supplement: one libFuzzer campaign (vf/fuzz.py) in a subprocess; see DESIGN.md 2.3 E-fuzz."""
    import shutil
    import subprocess
    import tempfile

    deps = os.path.join(ROOT, ".deps")
    try:
        sys.path.append(deps)
        import atheris  # noqa: F401
    except ImportError:
        acc.note("fuzz_supplement_skipped_atheris_not_installed")
        return
    finally:
        if deps in sys.path:
            sys.path.remove(deps)
    work = tempfile.mkdtemp(prefix="vf-fuzz-")
    try:
        out = os.path.join(work, "out.json")
        corpus = os.path.join(work, "corpus")
        os.makedirs(corpus)
        env = dict(os.environ, PYTHONPATH=deps, VERIF_REPO=REPO)
        cmd = [sys.executable, "-m", "vf.fuzz", prop_id, out, "-runs=%d" % task["runs"], "-seed=%d" % task["seed"], "-max_len=4096", "-len_control=0", corpus]
        proc = subprocess.run(cmd, cwd=ROOT, env=env, stdout=subprocess.PIPE, stderr=subprocess.STDOUT, text=True, timeout=task.get("timeout", 1800))
        if not os.path.exists(out):
            raise HarnessError("fuzz campaign wrote no result (exit %s): %s" % (proc.returncode, proc.stdout[-500:]))
        with open(out) as fh:
            doc = json.load(fh)
        if doc.get("violation"):
            v = doc["violation"]
            acc.violations.append({"clause": v["clause"], "detail": "(found by the atheris campaign) " + v["detail"], "case": v["case"]})
        elif proc.returncode != 0:
            raise HarnessError("fuzz campaign ended with exit %s: %s" % (proc.returncode, proc.stdout[-500:]))
        acc.evaluations += int(doc.get("executions", 0))
        acc.tags["fuzz_executions"] += int(doc.get("executions", 0))
        acc.tags["fuzz_distinct_nontrivial_cases_(not_added_to_the_total)"] += int(doc.get("distinct_nontrivial", 0))
        for kf_id, count in (doc.get("known") or {}).items():
            acc.known[kf_id] += count
            acc.known_examples.setdefault(kf_id, (doc.get("known_examples") or {}).get(kf_id))
    except subprocess.TimeoutExpired:
        acc.note("fuzz_campaign_timed_out_(inconclusive)")
    finally:
        shutil.rmtree(work, ignore_errors=True)
