"""Tagged, JSON-serialisable descriptions of arbitrary Python attribute values (so that cases can be replayed)."""
from hypothesis import strategies as st


class Sentinel:
    """An opaque object: equal only to itself."""

    def __init__(self, tag):
        self.tag = tag

    def __repr__(self):
        return "Sentinel(%r)" % (self.tag,)


_SENTINELS = {}


def decode(spec):
    t = spec["t"]
    if t in ("int", "str", "bool", "float"):
        return spec["v"]
    if t == "none":
        return None
    if t == "bytes":
        return bytes(spec["v"])
    if t == "list":
        return [decode(x) for x in spec["v"]]
    if t == "tuple":
        return tuple(decode(x) for x in spec["v"])
    if t == "frozenset":
        return frozenset(decode(x) for x in spec["v"])
    if t == "set":
        return set(decode(x) for x in spec["v"])
    if t == "dict":
        return {k: decode(v) for k, v in spec["v"]}
    if t == "sentinel":
        return _SENTINELS.setdefault(spec["v"], Sentinel(spec["v"]))
    if t == "bigint":
        return int(spec["v"])
    raise ValueError(t)


TEXT = st.text(alphabet=st.characters(blacklist_categories=("Cs",)), max_size=6)
_hashable_leaf = st.one_of(
    st.integers(-5, 5).map(lambda v: {"t": "int", "v": v}),
    st.text(alphabet="abc é\n\"\\", max_size=3).map(lambda v: {"t": "str", "v": v}),
    st.just({"t": "none"}),
    st.booleans().map(lambda v: {"t": "bool", "v": v}),
)
_leaf = st.one_of(
    _hashable_leaf,
    TEXT.map(lambda v: {"t": "str", "v": v}),
    st.floats(allow_nan=False, allow_infinity=False, width=32).map(lambda v: {"t": "float", "v": v}),
    st.lists(st.integers(0, 255), max_size=3).map(lambda v: {"t": "bytes", "v": v}),
    st.integers(0, 2).map(lambda v: {"t": "sentinel", "v": v}),
    st.lists(_hashable_leaf, max_size=3).map(lambda v: {"t": "frozenset", "v": v}),
    st.lists(_hashable_leaf, max_size=3).map(lambda v: {"t": "set", "v": v}),
)
any_value = st.recursive(
    _leaf,
    lambda inner: st.one_of(
        st.lists(inner, max_size=3).map(lambda v: {"t": "list", "v": v}),
        st.lists(inner, max_size=3).map(lambda v: {"t": "tuple", "v": v}),
        st.lists(st.tuples(st.text(alphabet="abk_ 1", max_size=3), inner).map(list), max_size=3, unique_by=lambda kv: kv[0]).map(lambda v: {"t": "dict", "v": v}),
    ),
    max_leaves=6,
)

# JSON-representable values (C11): None, bools, ints (also huge), finite floats, text (non-ASCII, control, astral), lists, dicts with string keys
JSON_TEXT = st.text(alphabet=st.characters(blacklist_categories=("Cs",)), max_size=8)
_json_leaf = st.one_of(
    st.sampled_from([{"t": "list", "v": []}, {"t": "dict", "v": []}, {"t": "dict", "v": [["children", {"t": "list", "v": []}]]}, {"t": "dict", "v": [["children", {"t": "none"}], ["label", {"t": "str", "v": "File"}]]}]),
    st.just({"t": "none"}),
    st.booleans().map(lambda v: {"t": "bool", "v": v}),
    st.integers(-1000, 1000).map(lambda v: {"t": "int", "v": v}),
    st.integers(-(2 ** 200), 2 ** 200).map(lambda v: {"t": "bigint", "v": str(v)}),
    st.floats(allow_nan=False, allow_infinity=False).map(lambda v: {"t": "float", "v": v}),
    JSON_TEXT.map(lambda v: {"t": "str", "v": v}),
    st.sampled_from(["\u0000", "\u001f\u007f", "  ", "\U0001f600", "\"\\/", "é漢ж"]).map(lambda v: {"t": "str", "v": v}),
)
json_value = st.recursive(
    _json_leaf,
    lambda inner: st.one_of(
        st.lists(inner, max_size=3).map(lambda v: {"t": "list", "v": v}),
        st.lists(st.tuples(st.one_of(JSON_TEXT, st.sampled_from(["children", "parent", "name"])), inner).map(list), max_size=3, unique_by=lambda kv: kv[0]).map(lambda v: {"t": "dict", "v": v}),
    ),
    max_leaves=6,
)


def has_nonascii_or_container(spec):
    t = spec["t"]
    if t == "str":
        return any(ord(c) > 126 or ord(c) < 32 for c in spec["v"])
    if t in ("list", "dict"):
        return True
    return False
