"""Parent-process side of a check: plan, fan out, merge, report."""
import glob
import importlib
import json
import os
import sys
import time

from . import core


def _load(prop_id):
    core._setup_import_path()
    return importlib.import_module("vf.props.%s" % prop_id.lower())


def _regression_tasks(prop_id):
    tasks = []
    for path in sorted(glob.glob(os.path.join(core.ROOT, "replays", "regress", "%s-*.json" % prop_id))):
        with open(path, encoding="utf-8") as fh:
            doc = json.load(fh)
        case = doc["case"]
        tasks.append({"engine": "replay", "case": case, "assertions": int(case.get("assertions", 0)) if isinstance(case, dict) else 0, "file": os.path.relpath(path, core.ROOT)})
    # the reproducer of every open known finding is executed too, so that the finding is reported by every tier
    for finding in core.open_findings(prop_id).values():
        if isinstance(finding.get("repro"), dict):
            tasks.append({"engine": "replay", "case": finding["repro"], "assertions": 0, "file": "known_findings.json#%s" % finding["id"]})
    return tasks


def _import_failure(prop_id, exc):
    """The check module - i.e. the harness's node classes, which are ordinary user classes built on the mixins (multiple
    inheritance with slotted or container bases, property overrides, ...) - cannot even be defined on this tree."""
    import traceback

    detail = "".join(traceback.format_exception(type(exc), exc, exc.__traceback__))
    viol = {"clause": "user-class-definition", "detail": "the node classes of the check can no longer be defined or imported on this tree:\n" + detail[-3000:], "case": {"kind": "import"}}
    path = core.write_replay(prop_id, viol)
    print("VIOLATION property=%s replay=%s" % (prop_id, path))
    print("  clause: user-class-definition")
    for line in detail.splitlines()[-12:]:
        print("  | %s" % line)
    return 1


def run_check(prop_id, tier):
    t0 = time.time()
    try:
        mod = _load(prop_id)
    except (TypeError, AttributeError, ValueError, RuntimeError, ImportError) as exc:
        return _import_failure(prop_id, exc)
    seed = core.seed_value()
    total = core.Total()
    tasks = _regression_tasks(prop_id) + list(mod.plan(tier, seed))
    # the library's optional internal assertions must never change behaviour: every second generated-case shard
    # runs with ANYTREE_ASSERTIONS=1 (modules that set "assertions" themselves, like C01, are left alone)
    flip = 0
    for task in tasks:
        if "assertions" not in task and task.get("engine") in ("hyp", "blind-hyp", "systematic"):
            task["assertions"] = flip % 2
            flip += 1
    core.run_tasks(prop_id, tasks, total)
    wall = time.time() - t0

    open_kf = core.open_findings(prop_id)
    code = 0
    # known findings must be listed as open; otherwise they are violations
    for kf_id, count in sorted(total.known.items()):
        if kf_id in open_kf:
            print("KNOWN-FINDING: property=%s %s: %s (%d cases this run)" % (prop_id, kf_id, open_kf[kf_id]["what"], count))
        else:
            total.violations.append({"clause": "unlisted-finding:%s" % kf_id, "detail": "behaviour classified as %s but no open entry in known_findings.json" % kf_id, "case": total.known_examples.get(kf_id)})

    seen = set()
    for viol in total.violations:
        if viol["clause"] in seen:
            continue
        seen.add(viol["clause"])
        path = core.write_replay(prop_id, viol)
        print("VIOLATION property=%s replay=%s" % (prop_id, path))
        print("  clause: %s" % viol["clause"])
        for line in str(viol["detail"]).splitlines()[:12]:
            print("  | %s" % line)
        code = 1

    extra = mod.evidence_extra(total, tier) if hasattr(mod, "evidence_extra") else None
    exhaustive = mod.exhaustive(tier) if hasattr(mod, "exhaustive") else None
    try:
        core.write_evidence(prop_id, tier, mod.LEVEL, total, mod.RULE, mod.ASSUMPTIONS, wall, extra=extra, exhaustive=exhaustive)
    except Exception as exc:  # noqa: BLE001
        print("HARNESS-ERROR: cannot write evidence: %s" % exc)
        return 2

    if total.errors:
        for task, err in total.errors[:3]:
            print("HARNESS-ERROR: task %s\n%s" % (json.dumps(task, default=repr)[:300], err))
        return 2 if code == 0 else code
    print(
        "%s %s tier=%s seed=%d evaluations=%d distinct_nontrivial=%d violations=%d wall=%.1fs"
        % (prop_id, "OK" if code == 0 else "FAILED", tier, seed, total.evaluations, total.distinct_nontrivial, len(total.violations), wall)
    )
    return code


def replay(prop_id, path):
    with open(path, encoding="utf-8") as fh:
        doc = json.load(fh)
    case = doc["case"] if isinstance(doc, dict) and "case" in doc else doc
    assertions = int(case.get("assertions", 0)) if isinstance(case, dict) else 0
    if isinstance(case, dict) and case.get("kind") == "import":
        try:
            _load(prop_id)
        except (TypeError, AttributeError, ValueError, RuntimeError, ImportError) as exc:
            return _import_failure(prop_id, exc)
        print("%s replay OK: %s" % (prop_id, path))
        return 0

    if isinstance(case, dict) and case.get("kind") == "crash-task":
        import multiprocessing

        res, code = core.run_isolated(multiprocessing.get_context("spawn"), prop_id, assertions, case["task"])
        if res is None:
            print("VIOLATION property=%s replay=%s" % (prop_id, os.path.abspath(path)))
            print("  clause: interpreter-crash")
            print("  | the interpreter process running the task died (exit code %s)" % code)
            return 1
        viols = res["part"].get("violations") or []
        if viols:
            print("VIOLATION property=%s replay=%s" % (prop_id, os.path.abspath(path)))
            print("  clause: %s" % viols[0]["clause"])
            return 1
        print("%s replay OK: %s" % (prop_id, path))
        return 0

    def go(mod):
        acc = core.Acc()
        exc = acc.evaluate(mod.check_case, case, enumerated=True)
        return acc, exc

    acc, exc = core.run_single(prop_id, assertions, go)
    open_kf = core.open_findings(prop_id)
    for kf_id, count in sorted(acc.known.items()):
        if kf_id in open_kf:
            print("KNOWN-FINDING: property=%s %s: %s" % (prop_id, kf_id, open_kf[kf_id]["what"]))
        elif exc is None:
            exc = core.Violation("unlisted-finding:%s" % kf_id, "classified as %s, not listed as open" % kf_id)
    if exc is not None:
        print("VIOLATION property=%s replay=%s" % (prop_id, os.path.abspath(path)))
        print("  clause: %s" % exc.clause)
        for line in str(exc.detail).splitlines()[:20]:
            print("  | %s" % line)
        return 1
    print("%s replay OK: %s" % (prop_id, path))
    return 0
