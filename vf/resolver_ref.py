"""Reference path interpreter (C07) and reference glob evaluator (C08), written from the statements."""
import anytree


class ReprBoomError(Exception):
    pass


def _boom(self):
    raise ReprBoomError("the text of a node was asked for")


def make_class(sep, pathattr, unreprable=False):
    """Node class with a class-level separator; pathattr 'name' -> Node, otherwise AnyNode carrying that attribute.
    unreprable: repr()/str() of the nodes raise (their data refers back to them, say) - resolving a path never needs them."""
    extra = {"__repr__": _boom, "__str__": _boom} if unreprable else {}
    if pathattr == "name":
        return type("SepNode", (anytree.Node,), dict(extra, separator=sep))
    return type("SepAnyNode", (anytree.AnyNode,), dict(extra, separator=sep))


class TaggedName(str):
    """A str subclass whose string form differs from its raw character data (like a `class Kind(str, Enum)` member
    on Python >= 3.11): wherever a name is used 'as a string', str() of it counts, not the payload."""

    def __str__(self):
        return "<" + str.__str__(self) + ">"

    def __repr__(self):
        return "TaggedName(%s)" % str.__repr__(self)


import enum  # noqa: E402


class Kind(enum.Enum):
    A1 = 1
    B2 = 2
    c3 = "three"


class Level(enum.IntEnum):
    A1 = 1
    B2 = 2
    c3 = 3


class Word(enum.StrEnum):
    A1 = "alpha"
    B2 = "Beta"
    c3 = "A1"


class Perm(enum.Flag):
    A1 = 1
    B2 = 2
    c3 = 4


ENUMS = {"plain": Kind, "int": Level, "str": Word, "flag": Perm}


def name_object(name):
    """Case description of a name -> the object stored on the node."""
    if isinstance(name, dict):
        if "enum" in name:
            # enum members as names (as in the repository's tests/test_enum.py): addressed by str(member), which is
            # 'Kind.A1' for Enum and Flag, '1' for IntEnum and the value for StrEnum - never by the member's name
            return list(ENUMS[name["enum"][0]])[name["enum"][1] % 3]
        if "bytes" in name:
            return name["bytes"].encode("latin-1")  # addressed by str(b'...'), i.e. the text "b'...'" - what the repr of the path shows
        if "int" in name:
            return name["int"]
        if "tup" in name:
            return tuple(name["tup"])
        return TaggedName(name["tag"])
    return name


def name_text(name):
    """Case description of a name -> the string by which the node is addressed."""
    return str(name_object(name))


def build(case):
    """Build the tree of a resolver case: returns nodes in pre-order."""
    from . import shapes

    cls = make_class(case["sep"], case["pathattr"], bool(case.get("unreprable")))
    parents = shapes.shape_to_parents(_to_tuple(case["shape"]))
    nodes = []
    links = set(case.get("links") or ())
    link_cls = None
    if links:
        extra = {"__repr__": _boom, "__str__": _boom} if case.get("unreprable") else {}
        link_cls = type("SepLink", (anytree.SymlinkNode,), dict(extra, separator=case["sep"]))
    for idx, parent in enumerate(parents):
        name = case["names"][idx]
        name = name_object(name)
        if case["pathattr"] == "name":
            node = cls(name)
        else:
            node = cls(**{case["pathattr"]: name})
        if idx in links:
            # a SymlinkNode at this position: addressed by its target's name, placed by its own links (the target lives in
            # another tree and has a parent and a child of its own)
            decoy_parent = cls("decoy-parent") if case["pathattr"] == "name" else cls(**{case["pathattr"]: "decoy-parent"})
            decoy_child = cls("decoy-child") if case["pathattr"] == "name" else cls(**{case["pathattr"]: "decoy-child"})
            node.parent = decoy_parent
            decoy_child.parent = node
            node = link_cls(node)
        if parent is not None:
            node.parent = nodes[parent]
        nodes.append(node)
    return nodes


def _to_tuple(shape):
    return tuple(_to_tuple(c) for c in shape)


def name_of(case, idx):
    return name_text(case["names"][idx])


def eq(a, b, ignorecase):
    return a.lower() == b.lower() if ignorecase else a == b


def attr(node, pathattr):
    return str(getattr(node, pathattr))


def root_of(node):
    while node.parent is not None:
        node = node.parent
    return node


def ref_get(start, path, sep, pathattr, ignorecase):
    """("node", n) or ("error", exception class name, node at which the failing component was evaluated)."""
    parts = path.split(sep)
    node = start
    if path.startswith(sep):
        node = root_of(start)
        parts = parts[1:]
        if parts[0] == "":
            return ("error", "ResolverError", node)
        if not eq(attr(node, pathattr), parts[0], ignorecase):
            return ("error", "ResolverError", node)
        parts = parts[1:]
    for part in parts:
        if part == "..":
            if node.parent is None:
                return ("error", "RootResolverError", node)
            node = node.parent
        elif part in ("", "."):
            continue
        else:
            for child in node.children:
                if eq(attr(child, pathattr), part, ignorecase):
                    node = child
                    break
            else:
                return ("error", "ChildResolverError", node, part)
    return ("node", node)


# ---------------------------------------------------------------------------
# glob

def wildmatch(name, pat, ignorecase):
    """'*' any run of characters, '?' exactly one character, everything else itself; whole name anchored.

    Dynamic programming over the two strings; no regular expressions, no fnmatch.
    """
    if ignorecase:
        name, pat = name.lower(), pat.lower()
    n = len(name)
    row = [True] + [False] * n
    for p in pat:
        new = [False] * (n + 1)
        if p == "*":
            new[0] = row[0]
            for i in range(1, n + 1):
                new[i] = row[i] or new[i - 1]
        else:
            for i in range(1, n + 1):
                new[i] = row[i - 1] and (p == "?" or p == name[i - 1])
        row = new
    return row[n]


def is_wild(comp):
    return "*" in comp or "?" in comp


def preorder(node):
    out = [node]
    for child in node.children:
        out.extend(preorder(child))
    return out


class GlobTrace:
    def __init__(self):
        self.dead = []  # (kind, below_wildcard, inside_doublestar)


def ref_glob(start, path, sep, pathattr, ignorecase, trace=None):
    """List of nodes the pattern denotes (relaxed semantics: dead ends contribute nothing)."""
    trace = trace or GlobTrace()
    parts = path.split(sep)
    node = start
    if path.startswith(sep):
        node = root_of(start)
        parts = parts[1:]
        if parts[0] == "" or not wildmatch(attr(node, pathattr), parts[0], ignorecase):
            trace.dead.append(("root", False, False))
            return []
        parts = parts[1:]
    return _glob(node, parts, pathattr, ignorecase, trace, False, False)


def _glob(node, parts, pathattr, ignorecase, trace, below_wild, in_star):
    if not parts:
        return [node]
    comp, rest = parts[0], parts[1:]
    if comp == "..":
        if node.parent is None:
            trace.dead.append(("up", below_wild, in_star))
            return []
        return _glob(node.parent, rest, pathattr, ignorecase, trace, below_wild, in_star)
    if comp in ("", "."):
        return _glob(node, rest, pathattr, ignorecase, trace, below_wild, in_star)
    if comp == "**":
        out = []
        for sub in preorder(node):
            out.extend(_glob(sub, rest, pathattr, ignorecase, trace, below_wild, True))
        return out
    wild = is_wild(comp)
    matching = [c for c in node.children if wildmatch(attr(c, pathattr), comp, ignorecase)]
    if not matching and not wild:
        trace.dead.append(("child", below_wild, in_star))
        return []
    out = []
    for child in matching:
        out.extend(_glob(child, rest, pathattr, ignorecase, trace, below_wild or wild, in_star))
    return out
