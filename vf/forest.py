"""Tree/forest builders and identity-based snapshots.

The harness never applies ==, in, bool(), len(), hashing or iteration to a node:
objects are mapped to labels through id()-keyed dicts only.
"""
from . import shapes as _shapes


def to_tuple(shape):
    return tuple(to_tuple(c) for c in shape)


def to_list(shape):
    return [to_list(c) for c in shape]


def build_tree(shape, make, via="parent"):
    """Build a tree of the given shape; returns nodes in pre-order (index == label).

    via="parent": children attached with ``child.parent = node`` in order;
    via="children": ``node.children = [...]`` bottom-up.
    """
    shape = to_tuple(shape)
    parents = _shapes.shape_to_parents(shape)
    nodes = [make(i) for i in range(len(parents))]
    if via == "parent":
        for idx, parent in enumerate(parents):
            if parent is not None:
                nodes[idx].parent = nodes[parent]
    else:
        kids = [[] for _ in parents]
        for idx, parent in enumerate(parents):
            if parent is not None:
                kids[parent].append(idx)
        for idx in reversed(range(len(parents))):
            if kids[idx]:
                nodes[idx].children = [nodes[k] for k in kids[idx]]
    return nodes


class Labels:
    """Identity map object -> label."""

    def __init__(self, nodes=()):
        self._ids = {}
        self._keep = []
        for node in nodes:
            self.add(node)

    def add(self, node, label=None):
        if label is None:
            label = len(self._keep)
        self._ids[id(node)] = label
        self._keep.append(node)
        return label

    def label(self, node):
        if node is None:
            return None
        key = id(node)
        if key not in self._ids:
            # unknown object: give it a fresh label so that it is still compared
            return self.add(node, "?%d" % len(self._keep))
        return self._ids[key]

    def labels(self, nodes):
        return [self.label(n) for n in nodes]

    def known(self, node):
        return id(node) in self._ids


def snapshot(nodes, labels=None):
    """(parent label, ordered children labels) for every node, read through the public API only."""
    labels = labels or Labels(nodes)
    return [[labels.label(n.parent), labels.labels(n.children)] for n in nodes]


def build_forest(state, make, route="parent"):
    """Build a labelled forest state [(parent, children)...]; returns the nodes by label.

    route "parent":   parent assignments such that each children tuple gets the given order
    route "children": children assignments bottom-up
    route "detour":   first build a chain through all nodes, then re-arrange (so that the
                      bookkeeping attributes exist with value None / [] on roots and leaves)
    """
    n = len(state)
    nodes = [make(i) for i in range(n)]
    if route == "detour" and n > 1:
        for i in range(1, n):
            nodes[i].parent = nodes[i - 1]
        for i in range(1, n):
            nodes[i].parent = None
    if route in ("parent", "detour"):
        for p in range(n):
            for c in state[p][1]:
                nodes[c].parent = nodes[p]
    else:
        depth = [0] * n
        for i in range(n):
            d, x = 0, i
            while state[x][0] is not None:
                x = state[x][0]
                d += 1
            depth[i] = d
        for p in sorted(range(n), key=lambda i: -depth[i]):
            if state[p][1]:
                nodes[p].children = [nodes[c] for c in state[p][1]]
    return nodes
