"""Importable node classes used by the checks (importable so that they pickle)."""
from anytree import AnyNode, LightNodeMixin, Node, NodeMixin, SymlinkNode, SymlinkNodeMixin


class PlainNM(NodeMixin):
    """Minimal user class on NodeMixin."""

    def __init__(self, name=None, parent=None, children=None, **kwargs):
        self.__dict__.update(kwargs)
        self.name = name
        self.parent = parent
        if children:
            self.children = children

    def __repr__(self):
        return "PlainNM(%r)" % (self.name,)


class SlotLM(LightNodeMixin):
    """User class on LightNodeMixin with __slots__ (no __dict__)."""

    __slots__ = ["name", "tag"]

    def __init__(self, name=None, parent=None, children=None):
        self.name = name
        self.parent = parent
        if children:
            self.children = children

    def __repr__(self):
        return "SlotLM(%r)" % (self.name,)


class StrSlotLM(LightNodeMixin):
    """Slotted user class whose __slots__ is a plain string (legal: one slot of that name)."""

    __slots__ = "payload"

    def __init__(self, payload=None, parent=None, children=None):
        self.payload = payload
        self.parent = parent
        if children:
            self.children = children

    @property
    def name(self):
        return self.payload

    def __repr__(self):
        return "StrSlotLM(%r)" % (self.payload,)


class _UnderLM(LightNodeMixin):
    """Slotted user class whose NAME starts with an underscore and that keeps a private (double-underscore) slot:
    Python mangles it to _UnderLM__payload (leading underscores of the class name are stripped)."""

    __slots__ = ("__payload",)

    def __init__(self, payload=None, parent=None, children=None):
        self.__payload = payload
        self.parent = parent
        if children:
            self.children = children

    @property
    def name(self):
        return self.__payload

    def __repr__(self):
        return "_UnderLM(%r)" % (self.__payload,)


class DictLM(LightNodeMixin):
    """User class on LightNodeMixin without __slots__ of its own (has a __dict__)."""

    def __init__(self, name=None, parent=None, children=None, **kwargs):
        self.__dict__.update(kwargs)
        self.name = name
        self.parent = parent
        if children:
            self.children = children

    def __repr__(self):
        return "DictLM(%r)" % (self.name,)


class Titled(object):
    """An application base class shared by nodes and links: a settable property 'title'."""

    @property
    def title(self):
        return self.__dict__.get("_title")

    @title.setter
    def title(self, value):
        self.__dict__["_title"] = value


class PlainLink(Titled, SymlinkNodeMixin):
    """User symlink class built directly on SymlinkNodeMixin."""

    icon = "arrow"  # a class-level default of the link class: an assignment through the link still goes to the target

    def __init__(self, target, parent=None, children=None):
        self.target = target
        self.parent = parent
        if children:
            self.children = children

    def __repr__(self):
        return "PlainLink(...)"


class ReprBoomError(Exception):
    pass


class SlotStoreNM(NodeMixin):
    """User NodeMixin class that keeps even the mixin's own bookkeeping in __slots__ (nothing tree-related lives in the
    instance dictionary)."""

    __slots__ = ("_NodeMixin__parent", "_NodeMixin__children", "name")

    def __init__(self, name=None, parent=None, children=None):
        self.name = name
        self.parent = parent
        if children:
            self.children = children

    def __repr__(self):
        return "SlotStoreNM(%r)" % (self.name,)


class StrBoomNM(NodeMixin):
    """repr() works, str()/format() do not (a __str__ that returns a non-string id, say)."""

    def __init__(self, name=None, parent=None, children=None):
        self.name = name
        self.parent = parent
        if children:
            self.children = children

    def __repr__(self):
        return "StrBoomNM(%r)" % (self.name,)

    def __str__(self):
        raise ReprBoomError("str() of node %s was evaluated" % (self.name,))

    __format__ = lambda self, spec: self.__str__()  # noqa: E731


class BoomReprNM(NodeMixin):
    """A node class whose repr()/str() cannot be evaluated (it prints data that refers back to the node, or an attribute
    that is not set yet): successful operations never need the text of a node."""

    def __init__(self, name=None, parent=None, children=None):
        self.name = name
        self.parent = parent
        if children:
            self.children = children

    def __repr__(self):
        raise ReprBoomError("repr of node %s was evaluated" % (self.name,))

    __str__ = __repr__


class Registered(object):
    """A cooperative base class (its constructor passes on to the next class in the MRO)."""

    def __init__(self, *args, **kwargs):
        super(Registered, self).__init__(*args, **kwargs)
        self.registered = True


class LateSuperNM(Registered, NodeMixin):
    """User class in a cooperative multiple-inheritance chain that sets up its tree position first and calls
    the remaining constructors afterwards."""

    def __init__(self, name=None, parent=None, children=None):
        self.name = name
        self.parent = parent
        if children:
            self.children = children
        super(LateSuperNM, self).__init__()

    def __repr__(self):
        return "LateSuperNM(%r)" % (self.name,)


class Estimator(object):
    """A user base class with its own meaning for names that NodeMixin also defines (decision-tree style flags).

    Listed BEFORE NodeMixin in the bases it shadows those read-only properties for this class; parent, children and
    everything the tree operations are documented to use stay NodeMixin's."""

    is_leaf = True
    is_root = False
    depth = 1
    height = 0
    size = 0
    leaves = ()
    descendants = ()
    siblings = ()


class ShadowMRO(Estimator, NodeMixin):
    def __init__(self, name=None, parent=None, children=None):
        self.name = name
        self.parent = parent
        if children:
            self.children = children

    def __repr__(self):
        return "ShadowMRO(%r)" % (self.name,)


class Record(object):
    """A slotted record base class (no tree behaviour)."""

    __slots__ = ("uid", "weight")


class SlotDictNM(Record, NodeMixin):
    """User NodeMixin class that keeps part of its data in inherited __slots__ and the rest in the instance dictionary."""

    def __init__(self, name=None, parent=None, children=None, **kwargs):
        self.__dict__.update(kwargs)
        self.name = name
        self.uid = "uid-%s" % (name,)
        if kwargs:
            self.weight = sorted(kwargs)
        self.parent = parent
        if children:
            self.children = children

    def __repr__(self):
        return "SlotDictNM(%r)" % (self.name,)


class StatefulNM(NodeMixin):
    """User class with the usual __getstate__/__setstate__ pair."""

    def __init__(self, name=None, parent=None, children=None):
        self.name = name
        self.parent = parent
        if children:
            self.children = children

    def __getstate__(self):
        return dict(self.__dict__)

    def __setstate__(self, state):
        self.__dict__.update(state)

    def __repr__(self):
        return "StatefulNM(%r)" % (self.name,)


FIXED_TARGET = StatefulNM("fixed-target")


class FixedLink(SymlinkNodeMixin):
    """All links of this class point at one node: `target` is a class-level attribute (nothing about it is stored per link)."""

    target = FIXED_TARGET

    def __init__(self, parent=None, children=None):
        self.parent = parent
        if children:
            self.children = children

    def __repr__(self):
        return "FixedLink(...)"


class PropLink(Titled, SymlinkNodeMixin):
    """Link whose `target` is a read-only property (the docs only require that the class has a `target` attribute)."""

    icon = "arrow"

    def __init__(self, target, parent=None, children=None):
        object.__setattr__(self, "_ref", target)  # a normal assignment would be forwarded to the target
        self.parent = parent
        if children:
            self.children = children

    @property
    def target(self):
        return object.__getattribute__(self, "_ref")

    def __repr__(self):
        return "PropLink(...)"


class SlotLink(Titled, SymlinkNodeMixin):
    """Link that keeps `target` in a slot instead of the instance dictionary."""

    __slots__ = ("target",)
    icon = "arrow"

    def __init__(self, target, parent=None, children=None):
        self.target = target
        self.parent = parent
        if children:
            self.children = children

    def __repr__(self):
        return "SlotLink(...)"


def class_link(target):
    """Link of a one-off class whose `target` is a class-level attribute (all links of that class share the target)."""

    def __init__(self, parent=None, children=None):
        self.parent = parent
        if children:
            self.children = children

    cls = type("ClassLink", (Titled, SymlinkNodeMixin), {"target": target, "icon": "arrow", "__init__": __init__, "__repr__": lambda self: "ClassLink(...)"})
    return cls()


def make_link(kind, target):
    """A user-defined link of the named kind pointing at target."""
    if kind == "PlainLink":
        return PlainLink(target)
    if kind == "PropLink":
        return PropLink(target)
    if kind == "SlotLink":
        return SlotLink(target)
    if kind == "ClassLink":
        return class_link(target)
    raise ValueError(kind)


LINK_KINDS = ["PlainLink", "PropLink", "SlotLink", "ClassLink"]


class EqNode(Node):
    """Record-like node: every instance compares equal to every other one and hashes alike."""

    def __eq__(self, other):
        return isinstance(other, EqNode)

    def __ne__(self, other):
        return not isinstance(other, EqNode)

    def __hash__(self):
        return 11


class StrictEqNode(Node):
    """A node whose comparison operators refuse foreign operands loudly instead of returning NotImplemented (as numeric or
    unit-carrying classes do): any `==`, `!=`, `in`, `.index()`, `.remove()` applied to such nodes raises."""

    def __eq__(self, other):
        raise TypeError("cannot compare %s with %s" % (type(self).__name__, type(other).__name__))

    __ne__ = __eq__

    def __hash__(self):
        return id(self) >> 4


class FalsyNode(Node):
    """A node that is always falsy (e.g. an 'empty' container)."""

    def __bool__(self):
        return False


class LenNode(Node):
    """Container-like node: its length is its number of children, so every leaf is falsy."""

    def __len__(self):
        return len(self.children)


class ListNode(Node, list):
    """A node that is also a (here: empty) list - falsy, zero length, iterable, unhashable, equal to every other one."""


class TupleNode(NodeMixin, tuple):
    """A node class built on tuple (like a namedtuple record): iterable, has a length, compares by value."""

    def __new__(cls, name):
        return tuple.__new__(cls, (name, "payload"))

    def __init__(self, name):
        self.name = name

    def __repr__(self):
        return "TupleNode(%r)" % (self.name,)


class EqSlotLM(LightNodeMixin):
    __slots__ = ["name"]

    def __init__(self, name=None):
        self.name = name

    def __eq__(self, other):
        return isinstance(other, EqSlotLM)

    def __hash__(self):
        return 13

    def __repr__(self):
        return "EqSlotLM(%r)" % (self.name,)


def factory(clsname):
    """Return f(label) -> detached node of the named class carrying name=str(label)."""
    if clsname == "Node":
        return lambda label: Node(str(label))
    if clsname == "AnyNode":
        return lambda label: AnyNode(name=str(label))
    if clsname == "PlainNM":
        return lambda label: PlainNM(str(label))
    if clsname == "SlotLM":
        return lambda label: SlotLM(str(label))
    if clsname == "DictLM":
        return lambda label: DictLM(str(label))
    if clsname == "SymlinkNode":
        # the target sits deep inside another tree and has children of its own, so that any
        # structural value wrongly forwarded to the target differs from the link's own value
        def make_link(label):
            top = Node("target-root")
            mid = Node("target-mid", parent=top)
            target = Node(str(label), parent=mid)
            Node("target-child", parent=target)
            Node("target-sibling", parent=mid)
            return SymlinkNode(target)

        return make_link
    if clsname == "ShadowData":
        # ordinary nodes whose DATA happens to use the names of the read-only navigation attributes (a file listing
        # with size/path/depth columns): keyword attributes go into the instance dictionary, the properties still win
        data = {"size": 2048, "height": 80, "depth": 7, "leaves": "oak", "descendants": (), "path": "/tmp/x", "ancestors": None, "root": "sqrt", "is_leaf": "maybe", "is_root": 0, "siblings": 3, "anchestors": 1, "node": "not a node", "filter_": 0, "stop": 1, "maxlevel": 2, "style": None, "childiter": "x", "target": "data"}
        return lambda label: (Node(str(label), **data) if int(label) % 2 else AnyNode(name=str(label), **data))
    if clsname == "SlotStoreNM":
        return lambda label: SlotStoreNM(str(label))
    if clsname == "StrBoom":
        return lambda label: StrBoomNM(str(label))
    if clsname == "BoomRepr":
        return lambda label: BoomReprNM(str(label))
    if clsname == "LateSuperNM":
        return lambda label: LateSuperNM(str(label))
    if clsname == "ShadowMRO":
        return lambda label: ShadowMRO(str(label))
    if clsname == "SelfLinks":
        # every second node is a link to an earlier node made by the same factory (usually a node of the same tree)
        made = []

        def make_mixed(label):
            if made and int(label) % 2 == 1:
                node = SymlinkNode(made[(int(label) // 2) % len(made)])
            else:
                node = Node(str(label))
            made.append(node)
            return node

        return make_mixed
    if clsname == "EqNode":
        return lambda label: EqNode(str(label))
    if clsname == "FalsyNode":
        return lambda label: FalsyNode(str(label))
    if clsname == "StrictEqNode":
        return lambda label: StrictEqNode(str(label))
    if clsname == "LenNode":
        return lambda label: LenNode(str(label))
    if clsname == "EqSlotLM":
        return lambda label: EqSlotLM(str(label))
    if clsname == "ListNode":
        return lambda label: ListNode(str(label))
    if clsname == "TupleNode":
        return lambda label: TupleNode(str(label))
    if clsname == "TupleNameNode":  # ordinary Node whose name is a tuple (e.g. grid coordinates)
        return lambda label: Node((int(label), 0))
    if clsname == "CachedKids":
        return lambda label: CachedKidsNode(str(label))
    if clsname == "ViewMix":
        # stock nodes and nodes of a class with its own children view, alternating (so stock nodes sit below such parents)
        return lambda label: (ViewKidsNode(str(label)) if int(label) % 2 == 0 else Node(str(label)))
    if clsname == "MixNM":
        # a different NodeMixin-based class per node (they may share a tree)
        makers = [factory("Node"), factory("AnyNode"), factory("PlainNM"), factory("SymlinkNode")]
        return lambda label: makers[int(label) % 4](label)
    if clsname == "MixLM":
        makers = [factory("SlotLM"), factory("DictLM")]
        return lambda label: makers[int(label) % 2](label)
    raise ValueError(clsname)


# classes with their own __eq__/__hash__/__bool__/__len__ are ordinary users of the mixins: every property that
# quantifies over "all trees" holds for them too (the harness itself only ever uses identity on nodes)
SPECIAL_CLASSES = ["EqNode", "FalsyNode", "LenNode", "EqSlotLM", "ListNode", "TupleNode", "TupleNameNode", "StrictEqNode"]
class ViewKidsNode(Node):
    """A node class that overrides the public `children` getter with a presentation order of its own (newest label first);
    setter and deleter are the mixin's. Whatever is defined through a node's children - siblings of ITS children included -
    follows that public view."""

    @property
    def children(self):
        return tuple(sorted(NodeMixin.children.fget(self), key=lambda n: -int(str(getattr(n, "name", 0)) or 0) if str(getattr(n, "name", "")).lstrip("-").isdigit() else 0))

    @children.setter
    def children(self, value):
        NodeMixin.children.fset(self, value)

    @children.deleter
    def children(self):
        NodeMixin.children.fdel(self)


class CachedKidsNode(Node):
    """A node class whose public `children` hands out a LIST the node owns - the same object as long as its children do
    not change (a cache that attach/detach hooks invalidate). Reading a tree never writes to what the nodes hand out."""

    @property
    def children(self):
        cache = self.__dict__.get("_kids_cache")
        if cache is None:
            cache = self.__dict__["_kids_cache"] = list(NodeMixin.children.fget(self))
        return cache

    @children.setter
    def children(self, value):
        NodeMixin.children.fset(self, value)

    @children.deleter
    def children(self):
        NodeMixin.children.fdel(self)

    def _post_attach(self, parent):
        parent.__dict__["_kids_cache"] = None

    def _post_detach(self, parent):
        parent.__dict__["_kids_cache"] = None


TREE_CLASSES = ["Node", "AnyNode", "PlainNM", "SlotLM", "DictLM", "SymlinkNode", "MixNM", "MixLM", "ShadowData", "SlotStoreNM", "ViewMix", "CachedKids"] + SPECIAL_CLASSES


# ---------------------------------------------------------------------------
# class hierarchies created per case (C19): whatever a library caches per class must not leak from one case to the next
_HIERARCHY_COUNTER = [0]


def fresh_slot_hierarchy(mixin):
    """Three new user classes Base(mixin) <- Sub(Base) <- SubSub(Sub), each adding a slot of its own ('name', 'extra', 'more').
    Base also declares a PRIVATE slot ('__secret', mangled with Base's name) and - where the mixin leaves room for it -
    '__weakref__', the documented way to keep a slotted class weakly referenceable.
    They are registered in this module under unique names, so pickle can find them; release_hierarchy() removes them again."""
    import sys

    _HIERARCHY_COUNTER[0] += 1
    tag = _HIERARCHY_COUNTER[0]
    module = sys.modules[__name__]

    def init(self, name=None, parent=None):
        self.name = name
        setattr(self, "_Hier0_%d__secret" % tag, ["secret of", name])
        self.parent = parent

    def rep(self):
        return "%s(%r)" % (type(self).__name__, self.name)

    out = []
    base = mixin
    for level, slot in enumerate(("name", "extra", "more")):
        name = "Hier%d_%d" % (level, tag)
        slots = (slot,)
        if level == 0:
            slots = (slot, "__secret") + (("__weakref__",) if mixin is LightNodeMixin else ())
        body = {"__slots__": slots, "__module__": __name__, "__qualname__": name, "_vf_hierarchy": level}
        if level == 0:
            body["__init__"] = init
            body["__repr__"] = rep
        cls = type(name, (base,), body)
        setattr(module, name, cls)
        out.append(cls)
        base = cls
    return out


def release_hierarchy(classes):
    import sys

    module = sys.modules[__name__]
    for cls in classes or ():
        if getattr(module, cls.__name__, None) is cls:
            delattr(module, cls.__name__)


def own_slots(node):
    """(slot name, value) of every slot declared by the user classes of a node (the mixins' bookkeeping slots excluded)."""
    out = []
    for cls in reversed(type(node).__mro__):
        if cls in (LightNodeMixin, NodeMixin, object):
            continue
        slots = cls.__dict__.get("__slots__", ())
        for slot in [slots] if isinstance(slots, str) else slots:
            if slot in ("__dict__", "__weakref__"):
                continue
            attr = "_%s%s" % (cls.__name__.lstrip("_"), slot) if slot.startswith("__") and not slot.endswith("__") else slot
            out.append(("slot:" + slot, getattr(node, attr, "<unset>")))
    return out


def local_node_class():
    """A node class made by a class factory ('<locals>' in its qualified name): fine for copy, unknown to pickle."""

    class MadeByFactory(NodeMixin):
        def __init__(self, name, parent=None, **kwargs):
            self.__dict__.update(kwargs)
            self.name = name
            self.parent = parent

        def __repr__(self):
            return "MadeByFactory(%r)" % (self.name,)

    return MadeByFactory


def local_value(idx):
    """Values that copy handles and pickle does not: a closure and an instance of a class defined inside a function."""

    class Local:
        def __init__(self, v):
            self.v = v

        def __eq__(self, other):
            return type(other).__name__ == "Local" and other.v == self.v

        __hash__ = None

    return (lambda x: x + idx), Local([idx, {"k": idx}])
