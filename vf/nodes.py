"""Importable node classes used by the checks (importable so that they pickle)."""
from anytree import AnyNode, LightNodeMixin, Node, NodeMixin, SymlinkNode, SymlinkNodeMixin


class PlainNM(NodeMixin):
    """Minimal user class on NodeMixin."""

    def __init__(self, name=None, parent=None, children=None, **kwargs):
        self.__dict__.update(kwargs)
        self.name = name
        self.parent = parent
        if children:
            self.children = children

    def __repr__(self):
        return "PlainNM(%r)" % (self.name,)


class SlotLM(LightNodeMixin):
    """User class on LightNodeMixin with __slots__ (no __dict__)."""

    __slots__ = ["name", "tag"]

    def __init__(self, name=None, parent=None, children=None):
        self.name = name
        self.parent = parent
        if children:
            self.children = children

    def __repr__(self):
        return "SlotLM(%r)" % (self.name,)


class DictLM(LightNodeMixin):
    """User class on LightNodeMixin without __slots__ of its own (has a __dict__)."""

    def __init__(self, name=None, parent=None, children=None, **kwargs):
        self.__dict__.update(kwargs)
        self.name = name
        self.parent = parent
        if children:
            self.children = children

    def __repr__(self):
        return "DictLM(%r)" % (self.name,)


class PlainLink(SymlinkNodeMixin):
    """User symlink class built directly on SymlinkNodeMixin."""

    def __init__(self, target, parent=None, children=None):
        self.target = target
        self.parent = parent
        if children:
            self.children = children

    def __repr__(self):
        return "PlainLink(...)"


def factory(clsname):
    """Return f(label) -> detached node of the named class carrying name=str(label)."""
    if clsname == "Node":
        return lambda label: Node(str(label))
    if clsname == "AnyNode":
        return lambda label: AnyNode(name=str(label))
    if clsname == "PlainNM":
        return lambda label: PlainNM(str(label))
    if clsname == "SlotLM":
        return lambda label: SlotLM(str(label))
    if clsname == "DictLM":
        return lambda label: DictLM(str(label))
    raise ValueError(clsname)


TREE_CLASSES = ["Node", "AnyNode", "PlainNM", "SlotLM", "DictLM"]
