"""Shared machinery for the structural-mutation properties (C01, C02, C03, C16, C18, C20).

* hooked node classes whose eight notification methods log, snapshot and (by fault plan) raise
* a uniform JSON description of forests, calls and fault plans, and its execution on real nodes
* the closed-form specification of the three structural calls (oracle of C02)
* the closed-form hook log of a successful call (oracle of C16 layer 1)
* a step model that mirrors the *current* rollback algorithm; it is never the oracle of a property,
  it only classifies C03 deviations into the listed known findings
* enumerators (forests x calls x fault positions) and Hypothesis strategies for histories
"""
import itertools
import sys

from anytree import AnyNode, LightNodeMixin, LoopError, Node, NodeMixin, SymlinkNode, TreeError

from . import nodes as _nodes
from . import shapes as _shapes
from .forest import Labels

HOOKS = [
    "pre_detach",
    "post_detach",
    "pre_attach",
    "post_attach",
    "pre_detach_children",
    "post_detach_children",
    "pre_attach_children",
    "post_attach_children",
]
PRE_HOOKS = [h for h in HOOKS if h.startswith("pre_")]


class Veto(Exception):
    """Raised by a hook according to the fault plan."""

    def __init__(self, kind, label, count):
        super().__init__(kind, label, count)
        self.kind = kind
        self.label = label
        self.count = count


class VetoAssert(Veto, AssertionError):
    """A veto written as an assertion (validating classes often say `assert ...` in a pre-hook)."""


class VetoTree(Veto, TreeError):
    """A veto that uses the library's own exception class."""


class VetoLookup(Veto, KeyError):
    """A veto that surfaces as a LookupError from the hook's own bookkeeping."""


class VetoStop(Veto, StopIteration):
    """A veto that is a StopIteration (a hook that calls next() on an exhausted iterator): it must arrive as what it is."""


class VetoRecursion(Veto, RecursionError):
    """A pre-hook that leaves with RecursionError (a validating hook that walks a very deep subtree): an ordinary Exception."""


class VetoMemory(Veto, MemoryError):
    """A pre-hook that leaves with MemoryError (an allocation it made failed): an ordinary Exception as well."""


VETO_KINDS = {None: Veto, "assert": VetoAssert, "tree": VetoTree, "lookup": VetoLookup, "stop": VetoStop, "recursion": VetoRecursion, "memory": VetoMemory}


class VetoBase(BaseException):
    """Raised by a hook according to the fault plan 'base': an interrupt-like exception (KeyboardInterrupt, SystemExit and
    GeneratorExit are BaseExceptions but not Exceptions), which no 'except Exception' handler may swallow or react to."""

    def __init__(self, kind, label, count):
        super().__init__(kind, label, count)
        self.kind = kind
        self.label = label
        self.count = count


class Recorder:
    """Per-case object holding labels, the hook log and the active fault plan."""

    def __init__(self, take_snapshots=False):
        self.labels = Labels()
        self.universe = []
        self.take_snapshots = take_snapshots
        self.begin_call(None)

    def begin_call(self, plan):
        plan = plan or {}
        self.count = 0
        self.log = []
        self.snaps = []
        self.raised = []
        self.once = set(plan.get("once", ()))
        self.persist = {(k, l) for k, l in plan.get("persist", ())}
        self.evict = {(k, l) for k, l in plan.get("evict", ())}
        self.base = set(plan.get("base", ()))
        self.rehome = {(k, l) for k, l in plan.get("rehome", ())}
        self.false_at = set(plan.get("false", ()))
        self.editlist = set(plan.get("editlist", ()))
        self.refile = {(k, l) for k, l in plan.get("refile", ())}
        self.sealed = set(plan.get("sealed", ()))  # labels of nodes whose class refuses attribute writes during this call
        self.current_list = None
        self.veto_class = VETO_KINDS[plan.get("exc")]

    def hook(self, kind, node, arg):
        label = self.labels.label(node)
        if kind.endswith("_children"):
            arg_l = [self.labels.label(a) for a in arg]
        else:
            arg_l = self.labels.label(arg)
        # the snapshot is taken first: if the interpreter's recursion limit strikes here, nothing has been recorded yet
        snap = snapshot(self.universe, self.labels) if self.take_snapshots else None
        self.count += 1
        self.log.append([kind, label, arg_l])
        if self.take_snapshots:
            self.snaps.append(snap)
        if self.count in self.editlist and isinstance(self.current_list, list):
            # the caller's own list (a work list that hooks tick off) changes while the assignment is running: the
            # assignment is about the children the list held when it was made
            lst = self.current_list
            action = self.count % 4
            if action == 0 and lst:
                lst.pop()
            elif action == 1:
                lst.reverse()
            elif action == 2 and lst:
                lst.append(lst[0])
            elif any(x is node for x in lst):
                lst[:] = [x for x in lst if x is not node]
            else:
                del lst[:1]
        if self.count in self.false_at:
            return False  # hooks are notifications: what they return means nothing
        if self.count in self.base:
            self.raised.append(self.count)
            raise VetoBase(kind, label, self.count)
        if self.count in self.once or (kind, label) in self.persist:
            self.raised.append(self.count)
            raise self.veto_class(kind, label, self.count)
        if (kind, label) in self.refile and not kind.endswith("_children"):
            # a per-node hook that re-files the NEXT sibling of the moving node under another node ('when a chapter leaves, its
            # appendix goes to the archive'): once per call
            self.refile.discard((kind, label))
            sibs = [c for c in arg.children]
            later = None
            for i, c in enumerate(sibs):
                if c is node and i + 1 < len(sibs):
                    later = sibs[i + 1]
            if later is None and sibs and sibs[0] is not node:
                later = sibs[0]
            if later is not None:
                for other in self.universe:
                    cur = other
                    while cur is not None and cur is not later and cur is not node:
                        cur = cur.parent
                    # (not below the sibling itself, and not below the moving node: the running call may be about to put
                    # the moving node below that sibling - the loop would be the hook's doing)
                    if cur is None and other is not arg:
                        later.parent = other
                        break
        if (kind, label) in self.evict and not kind.endswith("_children"):
            # a hook that itself changes the tree (e.g. 'the newcomer evicts the first child'): once per call
            self.evict.discard((kind, label))
            victim = next((c for c in arg.children if c is not node), None)
            if victim is not None:
                victim.parent = None
        elif (kind, label) in self.rehome and kind in ("pre_attach", "post_attach"):
            # an attach hook that files the NEW PARENT itself somewhere else ('a task that gets its first subtask is moved
            # below its owner'): the receiver goes below the first node that neither it nor the moving node has below itself
            self.rehome.discard((kind, label))

            def below(top, candidate):
                cur = candidate
                while cur is not None and cur is not top:
                    cur = cur.parent
                return cur is top

            for other in self.universe:
                if other is arg or other is arg.parent or below(arg, other) or below(node, other):
                    continue
                arg.parent = other
                break
        elif (kind, label) in self.evict:
            # a *_children hook that re-files the first listed child under another node of the universe ('archive it')
            self.evict.discard((kind, label))
            for child in arg:
                if not hasattr(child, "parent"):
                    continue
                for other in self.universe:
                    if other is node or other is child or other is child.parent:
                        continue
                    cur = other
                    while cur is not None and cur is not child:
                        cur = cur.parent
                    if cur is None:  # child is not an ancestor of other: no loop
                        child.parent = other
                        break
                break


class ReprBoom(Exception):
    """Raised by the repr of the harness's node classes while REPR_BOOM[0] is set."""


REPR_BOOM = [False]
CURRENT = [None]  # process-local; replaced at the start of every case


def _rec():
    return CURRENT[0]


class HookMix:
    __slots__ = ()

    def _pre_detach(self, parent):
        return _rec().hook("pre_detach", self, parent)

    def _post_detach(self, parent):
        return _rec().hook("post_detach", self, parent)

    def _pre_attach(self, parent):
        return _rec().hook("pre_attach", self, parent)

    def _post_attach(self, parent):
        return _rec().hook("post_attach", self, parent)

    def _pre_detach_children(self, children):
        return _rec().hook("pre_detach_children", self, children)

    def _post_detach_children(self, children):
        return _rec().hook("post_detach_children", self, children)

    def _pre_attach_children(self, children):
        return _rec().hook("pre_attach_children", self, children)

    def _post_attach_children(self, children):
        return _rec().hook("post_attach_children", self, children)

    def __repr__(self):
        if REPR_BOOM[0]:
            # a class whose repr cannot be evaluated right now (it prints an attribute that is not set yet, or data that
            # refers back to the node): nothing on a successful path, and nothing between a refusal and its rollback, may need it
            raise ReprBoom()
        rec = _rec()
        return "<%s>" % (rec.labels.label(self) if rec is not None and rec.labels.known(self) else "?")

    __str__ = __repr__


class HNM(HookMix, NodeMixin):
    separator = "/"

    def __init__(self, name):
        self.name = name


class HSlotStoreNM(HookMix, NodeMixin):
    """NodeMixin class that declares the mixin's own private names as slots: nothing tree-related lives in the instance dict."""

    __slots__ = ("_NodeMixin__parent", "_NodeMixin__children", "name")
    separator = "/"

    def __init__(self, name):
        self.name = name


class HSideNM(HookMix, NodeMixin):
    """NodeMixin class that keeps ALL its attributes in a side table behind __setattr__/__getattr__ (the pattern
    SymlinkNodeMixin itself uses for forwarding): normal attribute access works, the instance dict stays empty."""

    separator = "/"

    def __init__(self, name):
        object.__setattr__(self, "_side", {})
        self.name = name

    def __setattr__(self, key, value):
        if isinstance(getattr(type(self), key, None), property):
            object.__setattr__(self, key, value)  # parent, children: the mixin's own properties
        else:
            self.__dict__["_side"][key] = value

    def __getattr__(self, key):
        try:
            return self.__dict__["_side"][key]
        except KeyError:
            raise AttributeError(key) from None

    def __delattr__(self, key):
        if isinstance(getattr(type(self), key, None), property):
            object.__delattr__(self, key)
        else:
            try:
                del self.__dict__["_side"][key]
            except KeyError:
                raise AttributeError(key) from None


class SealedError(TypeError):
    """Raised by the __setattr__ of a sealed (frozen) node."""


class SealMix:
    """Nodes that can be sealed: while their label is in the plan's 'sealed' list, every attribute write on them is refused
    (a frozen record, a node handed to a plug-in read-only)."""

    __slots__ = ()

    def __setattr__(self, key, value):
        rec = _rec()
        if rec is not None and rec.sealed and rec.labels.known(self) and rec.labels.label(self) in rec.sealed:
            raise SealedError("node is sealed")
        object.__setattr__(self, key, value)


class HSealNM(SealMix, HookMix, NodeMixin):
    separator = "/"

    def __init__(self, name):
        self.name = name


class HSealLM(SealMix, HookMix, LightNodeMixin):
    __slots__ = ("name",)
    separator = "/"

    def __init__(self, name):
        self.name = name


class CoopMix:
    """Hooks written cooperatively: each one records itself and then hands on to the next class in the MRO with super() -
    which ends at the mixin's own (empty) hook methods; they are part of the documented interface of both mixins."""

    __slots__ = ()

    def _pre_detach(self, parent):
        out = _rec().hook("pre_detach", self, parent)
        super()._pre_detach(parent)
        return out

    def _post_detach(self, parent):
        out = _rec().hook("post_detach", self, parent)
        super()._post_detach(parent)
        return out

    def _pre_attach(self, parent):
        out = _rec().hook("pre_attach", self, parent)
        super()._pre_attach(parent)
        return out

    def _post_attach(self, parent):
        out = _rec().hook("post_attach", self, parent)
        super()._post_attach(parent)
        return out

    def _pre_detach_children(self, children):
        out = _rec().hook("pre_detach_children", self, children)
        super()._pre_detach_children(children)
        return out

    def _post_detach_children(self, children):
        out = _rec().hook("post_detach_children", self, children)
        super()._post_detach_children(children)
        return out

    def _pre_attach_children(self, children):
        out = _rec().hook("pre_attach_children", self, children)
        super()._pre_attach_children(children)
        return out

    def _post_attach_children(self, children):
        out = _rec().hook("post_attach_children", self, children)
        super()._post_attach_children(children)
        return out

    __repr__ = HookMix.__repr__
    __str__ = HookMix.__repr__


class HCoopNM(CoopMix, NodeMixin):
    separator = "/"

    def __init__(self, name):
        self.name = name


class HCoopLM(CoopMix, LightNodeMixin):
    __slots__ = ("name",)
    separator = "/"

    def __init__(self, name):
        self.name = name


class TrackedList(list):
    """What CopyMix stores instead of a plain list."""


class CopyMix:
    """Classes whose __setattr__ does not store the very object it is given: plain lists are kept as TrackedList COPIES
    (change tracking, defensive copies). Whatever the mixins assign, they must read back what was actually stored."""

    __slots__ = ()

    def __setattr__(self, key, value):
        object.__setattr__(self, key, TrackedList(value) if type(value) is list else value)


class HCopyNM(CopyMix, HookMix, NodeMixin):
    separator = "/"

    def __init__(self, name):
        self.name = name


class HCopyLM(CopyMix, HookMix, LightNodeMixin):
    __slots__ = ("name",)
    separator = "/"

    def __init__(self, name):
        self.name = name


class HArmNM(HookMix, NodeMixin):
    """A class whose pre-hooks ARM the matching post-hook on the instance (a one-shot callback carrying a snapshot taken
    before the change): the post-hook that is on the node when the step has been made is the one that runs. The class-level
    post-hooks record a different kind, so a stale lookup shows in the log."""

    separator = "/"

    def __init__(self, name):
        self.name = name

    def _pre_attach(self, parent):
        out = _rec().hook("pre_attach", self, parent)

        def armed(parent_):
            del self._post_attach
            return _rec().hook("post_attach", self, parent_)

        self._post_attach = armed
        return out

    def _pre_detach(self, parent):
        out = _rec().hook("pre_detach", self, parent)

        def armed(parent_):
            del self._post_detach
            return _rec().hook("post_detach", self, parent_)

        self._post_detach = armed
        return out

    def _post_attach(self, parent):
        return _rec().hook("post_attach(the hook of the class although the pre-hook armed one on the instance)", self, parent)

    def _post_detach(self, parent):
        return _rec().hook("post_detach(the hook of the class although the pre-hook armed one on the instance)", self, parent)


class HArmLM(HookMix, LightNodeMixin):
    """As HArmNM, for a LightNodeMixin class whose instances have a dict, and for the four *_children hooks as well: each
    pre-hook arms the matching post-hook on the instance."""

    separator = "/"

    def __init__(self, name):
        self.name = name

    def _arm(self, pre, post, arg):
        out = _rec().hook(pre, self, arg)

        def armed(arg_):
            delattr(self, "_" + post)
            return _rec().hook(post, self, arg_)

        setattr(self, "_" + post, armed)
        return out

    def _pre_attach(self, parent):
        return self._arm("pre_attach", "post_attach", parent)

    def _pre_detach(self, parent):
        return self._arm("pre_detach", "post_detach", parent)

    def _pre_attach_children(self, children):
        return self._arm("pre_attach_children", "post_attach_children", children)

    def _pre_detach_children(self, children):
        return self._arm("pre_detach_children", "post_detach_children", children)

    def _post_attach(self, parent):
        return _rec().hook("post_attach(the hook of the class although the pre-hook armed one on the instance)", self, parent)

    def _post_detach(self, parent):
        return _rec().hook("post_detach(the hook of the class although the pre-hook armed one on the instance)", self, parent)

    def _post_attach_children(self, children):
        return _rec().hook("post_attach_children(the hook of the class although the pre-hook armed one on the instance)", self, children)

    def _post_detach_children(self, children):
        return _rec().hook("post_detach_children(the hook of the class although the pre-hook armed one on the instance)", self, children)


class HLM(HookMix, LightNodeMixin):
    __slots__ = ("name",)
    separator = "/"

    def __init__(self, name):
        self.name = name


class HDictLM(HookMix, LightNodeMixin):
    def __init__(self, name):
        self.name = name


class EqMix:
    """Value-style equality: every instance compares equal to every other and hashes alike.

    Such classes are legitimate users of the mixins (C01 quantifies over any node class); the library must
    keep using identity.  The harness itself never applies ==/hash to nodes.
    """

    __slots__ = ()

    def __eq__(self, other):
        return isinstance(other, EqMix)

    def __ne__(self, other):
        return not isinstance(other, EqMix)

    def __hash__(self):
        return 7


class HEqNM(EqMix, HookMix, NodeMixin):
    separator = "/"

    def __init__(self, name):
        self.name = name


class HEqLM(EqMix, HookMix, LightNodeMixin):
    __slots__ = ("name",)
    separator = "/"

    def __init__(self, name):
        self.name = name


class HNode(HookMix, Node):
    pass


class HAnyNode(HookMix, AnyNode):
    pass


class HSymlink(HookMix, SymlinkNode):
    pass


def _name(label):
    return "n%s" % label


def _reversed_children(base):
    """children property override presenting the children in reverse order (a 'newest first' view); setter and deleter are the mixin's own."""

    def getter(self):
        return tuple(reversed(base.children.fget(self)))

    def setter(self, value):
        base.children.fset(self, value)

    def deleter(self):
        base.children.fdel(self)

    return property(getter, setter, deleter)


class HRevNM(HookMix, NodeMixin):
    separator = "/"
    children = _reversed_children(NodeMixin)

    def __init__(self, name):
        self.name = name


class HRevLM(HookMix, LightNodeMixin):
    __slots__ = ("name",)
    separator = "/"
    children = _reversed_children(LightNodeMixin)

    def __init__(self, name):
        self.name = name


LOCKED = [False]


class LockNM(NodeMixin):
    """A validating class that guards the tree through the public `parent` attribute itself (a property override that
    delegates to NodeMixin's) instead of through the _pre_* hooks: while LOCKED[0] is set every re-parenting is refused."""

    def __init__(self, name):
        self.name = name

    @property
    def parent(self):
        return NodeMixin.parent.fget(self)

    @parent.setter
    def parent(self, value):
        if LOCKED[0]:
            raise TreeError("the tree is locked")
        NodeMixin.parent.fset(self, value)

    def __repr__(self):
        return "LockNM(%s)" % (self.name,)


CLASSES = {
    # name: (factory(label) -> detached node, family, hooked)
    "HNM": (lambda l: HNM(_name(l)), "NM", True),
    "HLM": (lambda l: HLM(_name(l)), "LM", True),
    "HDictLM": (lambda l: HDictLM(_name(l)), "LM", True),
    "HEqNM": (lambda l: HEqNM(_name(l)), "NM", True),
    "HEqLM": (lambda l: HEqLM(_name(l)), "LM", True),
    "HNode": (lambda l: HNode(_name(l)), "NM", True),
    "HAnyNode": (lambda l: HAnyNode(name=_name(l)), "NM", True),
    "HSymlink": (lambda l: HSymlink(Node("target-of-%s" % l)), "NM", True),
    # links whose target is the previous node of the same universe (so link and target can sit in one tree and both have children)
    "HSymlinkU": (None, "NM", True),
    # classes that get their hooks only after they were already in use (patched onto the class / set on each instance)
    "HLateNM": (None, "NM", True),
    "HLateLM": (None, "LM", True),
    "HInstNM": (None, "NM", True),
    "HInstLM": (None, "LM", True),  # a LightNodeMixin class WITHOUT __slots__: instances have a dict and may carry their own hooks
    "SymlinkNodeU": (None, "NM", False),
    "Node": (lambda l: Node(_name(l)), "NM", False),
    "AnyNode": (lambda l: AnyNode(name=_name(l)), "NM", False),
    "SymlinkNode": (lambda l: SymlinkNode(Node("target-of-%s" % l)), "NM", False),
    "PlainNM": (lambda l: _nodes.PlainNM(_name(l)), "NM", False),
    "SlotLM": (lambda l: _nodes.SlotLM(_name(l)), "LM", False),
    "DictLM": (lambda l: _nodes.DictLM(_name(l)), "LM", False),
    "LateSuperNM": (lambda l: _nodes.LateSuperNM(_name(l)), "NM", False),
    "LockNM": (lambda l: LockNM(_name(l)), "NM", False),
    "HArmNM": (lambda l: HArmNM(_name(l)), "NM", True),
    "HArmLM": (lambda l: HArmLM(_name(l)), "LM", True),
    "HCopyNM": (lambda l: HCopyNM(_name(l)), "NM", True),
    "HCopyLM": (lambda l: HCopyLM(_name(l)), "LM", True),
    "HCoopNM": (lambda l: HCoopNM(_name(l)), "NM", True),
    "HCoopLM": (lambda l: HCoopLM(_name(l)), "LM", True),
    "HSealNM": (lambda l: HSealNM(_name(l)), "NM", True),
    "HSealLM": (lambda l: HSealLM(_name(l)), "LM", True),
    "HSlotStoreNM": (lambda l: HSlotStoreNM(_name(l)), "NM", True),
    "HSideNM": (lambda l: HSideNM(_name(l)), "NM", True),
    "HRevNM": (lambda l: HRevNM(_name(l)), "NM", True),
    "HRevLM": (lambda l: HRevLM(_name(l)), "LM", True),
}
NM_CLASSES = [k for k, v in CLASSES.items() if v[1] == "NM"]
LM_CLASSES = [k for k, v in CLASSES.items() if v[1] == "LM"]
HOOKED_NM = ["HNM", "HNode", "HAnyNode", "HSymlink"]
HOOKED_LM = ["HLM", "HDictLM"]


def class_list(spec, n):
    """spec is a class name (homogeneous universe) or a list of class names per label."""
    if isinstance(spec, str):
        return [spec] * n
    return [spec[i % len(spec)] for i in range(n)]


def family_of(spec):
    names = [spec] if isinstance(spec, str) else list(spec)
    fams = {CLASSES[c][1] for c in names}
    return fams.pop() if len(fams) == 1 else "mixed"


def hooked(spec):
    names = [spec] if isinstance(spec, str) else list(spec)
    return all(CLASSES[c][2] for c in names)


# ---------------------------------------------------------------------------
# building and observing

def snapshot(universe, labels):
    return [[labels.label(n.parent), [labels.label(c) for c in n.children]] for n in universe]


HOOK_NAMES = ["_pre_detach", "_post_detach", "_pre_attach", "_post_attach", "_pre_detach_children", "_post_detach_children", "_pre_attach_children", "_post_attach_children"]


def _late_universe(clsname, n):
    """Nodes of a class that is defined WITHOUT hooks, used for a few link changes, and only then instrumented:
    HLateNM/HLateLM get the hook methods assigned to the class, HInstNM gets a callable per instance and hook."""
    base = LightNodeMixin if clsname in ("HLateLM", "HInstLM") else NodeMixin

    def init(self, name):
        self.name = name

    cls = type(clsname, (base,), {"__init__": init, "__repr__": HookMix.__repr__, "separator": "/"})
    nodes = [cls(_name(i)) for i in range(n)]
    if n >= 2:
        nodes[0].parent = nodes[1]
        nodes[1].children = []
        nodes[1].children = [nodes[0]]
        del nodes[1].children
    if clsname in ("HInstNM", "HInstLM"):
        for node in nodes:
            for name in HOOK_NAMES:
                setattr(node, name, (lambda arg, node=node, kind=name[1:]: _rec().hook(kind, node, arg)))
    else:
        for name in HOOK_NAMES:
            setattr(cls, name, HookMix.__dict__[name])
    return nodes


def create_nodes(classes):
    if classes and classes[0] in ("HLateNM", "HLateLM", "HInstNM", "HInstLM"):
        return _late_universe(classes[0], len(classes))
    universe = []
    for i, clsname in enumerate(classes):
        if clsname in ("HSymlinkU", "SymlinkNodeU"):
            target = universe[i - 1] if i else Node("target-of-0")
            universe.append((HSymlink if clsname == "HSymlinkU" else SymlinkNode)(target))
        else:
            universe.append(CLASSES[clsname][0](i))
    return universe


def make_universe(spec, state, route="parent", take_snapshots=False):
    """Create the recorder and the nodes of a labelled forest state."""
    rec = Recorder(take_snapshots)
    CURRENT[0] = rec
    n = len(state)
    universe = create_nodes(class_list(spec, n))
    for node in universe:
        rec.labels.add(node)
    rec.universe = universe
    _arrange(universe, state, route)
    rec.begin_call(None)
    return rec, universe


def _arrange(nodes, state, route):
    n = len(state)
    if route == "detour" and n > 1:
        for i in range(1, n):
            nodes[i].parent = nodes[i - 1]
        for i in range(1, n):
            nodes[i].parent = None
    if route in ("parent", "detour"):
        for p in range(n):
            for c in state[p][1]:
                nodes[c].parent = nodes[p]
    else:
        depth = [0] * n
        for i in range(n):
            d, x = 0, i
            while state[x][0] is not None:
                x = state[x][0]
                d += 1
            depth[i] = d
        for p in sorted(range(n), key=lambda i: -depth[i]):
            if state[p][1]:
                nodes[p].children = [nodes[c] for c in state[p][1]]


# non-node values, truthy and falsy ones (a falsy non-node must be refused like any other)
BAD_VALUES = {"int": 5, "str": "x", "obj": object(), "list": [], "none-in-list": None, "zero": 0, "empty-str": "", "empty-tuple": (), "false": False}


def _lookalikes():
    """Objects that look like nodes without being one: a node CLASS passed instead of an instance (a throw-away class,
    because a broken library may write to it), and an application object with parent/children/iter_path_reverse attributes."""
    import types

    import anytree

    class PassedByMistake(anytree.NodeMixin):
        pass

    stub = types.SimpleNamespace(parent=None, children=(), name="stub")
    stub.iter_path_reverse = lambda: iter((stub,))
    stub.path = (stub,)
    return {"class": PassedByMistake, "stub": stub}


LOOKALIKES = [{"bad": "class"}, {"bad": "stub"}]


def resolve(universe, arg):
    if arg is None:
        return None
    if isinstance(arg, dict):
        if arg["bad"] in ("class", "stub"):
            return _lookalikes()[arg["bad"]]  # fresh objects per use: whatever a broken library does to them stays local
        return BAD_VALUES[arg["bad"]]
    return universe[arg]


CALL_DEPTH = 200


def _stack_depth():
    frame = sys._getframe()
    depth = 0
    while frame is not None:
        depth += 1
        frame = frame.f_back
    return depth


def execute(universe, op):
    """Run one structural call; returns the exception raised or None.

    The interpreter's recursion limit is lowered to CALL_DEPTH frames above the current stack for
    the duration of the call: universes have <= 8 nodes, so a legitimate call needs a few dozen
    frames, and the unbounded rollback recursion (finding KF-C03-4) ends after 200 frames instead
    of a thousand, which makes those cases ~5x cheaper without changing their nature.
    """
    old_limit = sys.getrecursionlimit()
    sys.setrecursionlimit(_stack_depth() + CALL_DEPTH)
    try:
        return _execute(universe, op)
    finally:
        sys.setrecursionlimit(old_limit)


def _execute(universe, op):
    kind = op[0]
    node = universe[op[1]]
    try:
        if kind == "parent":
            node.parent = resolve(universe, op[2])
        elif kind == "children":
            arg = op[2]
            if isinstance(arg, dict):
                value = {"int": 5, "none": None, "obj": object()}[arg["noniter"]]
            else:
                seq = [resolve(universe, a) for a in arg]
                form = op[3] if len(op) > 3 else "list"
                if form == "str":
                    # the children value itself is a text: '' is an empty sequence, 'ab' a sequence of two non-nodes
                    value = "ab"[: len(seq)]
                elif form == "bytes":
                    value = b"xy"[: len(seq)]
                elif form == "tuple":
                    value = tuple(seq)
                elif form == "gen":
                    value = (x for x in seq)
                else:
                    value = seq
                    if _rec() is not None:
                        _rec().current_list = value
            node.children = value
        elif kind == "del":
            del node.children
        else:
            raise ValueError(kind)
    except (Exception, VetoBase) as exc:  # noqa: BLE001 - the outcome is data for the oracles
        return exc
    return None


def op_is_plain(op):
    """Only tree-node arguments (no invalid values)."""
    if op[0] == "parent":
        return not isinstance(op[2], dict)
    if op[0] == "children":
        return not isinstance(op[2], dict) and not any(isinstance(a, dict) for a in op[2])
    return True


# ---------------------------------------------------------------------------
# consistency invariant (C01) over everything reachable from the universe

def reachable(universe):
    seen = {}
    order = []
    todo = list(universe)
    while todo:
        node = todo.pop()
        if id(node) in seen:
            continue
        seen[id(node)] = node
        order.append(node)
        try:
            parent = node.parent
            kids = node.children
        except AttributeError:
            # not a tree node (e.g. an int that a broken implementation put into a children list)
            continue
        if parent is not None:
            todo.append(parent)
        todo.extend(kids)
    return order


def consistency_problem(universe, labels):
    """None if parent/children links of everything reachable describe one forest, else a description."""
    objs = reachable(universe)
    for obj in objs:
        if not isinstance(obj, (NodeMixin, LightNodeMixin)):
            return "non-node object %r reachable through the links" % (obj,)
    occ = {}
    for p in objs:
        kids = p.children
        if not isinstance(kids, tuple):
            return "children of %s is %s, not a tuple" % (labels.label(p), type(kids).__name__)
        for c in kids:
            occ.setdefault(id(c), []).append(p)
    for n in objs:
        holders = occ.get(id(n), [])
        parent = n.parent
        if parent is None:
            if holders:
                return "%s has no parent but is listed in children of %s" % (labels.label(n), [labels.label(h) for h in holders])
        else:
            if len(holders) != 1 or holders[0] is not parent:
                return "%s.parent is %s but it is listed in children of %s" % (labels.label(n), labels.label(parent), [labels.label(h) for h in holders])
    limit = len(objs) + 1
    for n in objs:
        steps = 0
        cur = n
        while cur is not None:
            cur = cur.parent
            steps += 1
            if steps > limit:
                return "parent chain from %s does not terminate" % labels.label(n)
    return None


# ---------------------------------------------------------------------------
# closed-form specification (C02)

def ancestors(state, n):
    out = []
    p = state[n][0]
    while p is not None:
        out.append(p)
        p = state[p][0]
    return out


def copy_state(state):
    return [[p, list(c)] for p, c in state]


def spec(state, op, family):
    """Closed-form effect of a call on a forest state.

    Returns ("ok", new_state) or ("raise", exception class name).  Written from the statement of
    C02, independent of the order in which the implementation performs its steps.
    """
    kind, n = op[0], op[1]
    if kind == "parent":
        p = op[2]
        if isinstance(p, dict):
            return ("raise", "TreeError") if family == "NM" else ("unspecified", None)
        if p == state[n][0]:
            return ("ok", copy_state(state))
        if p is not None and (p == n or n in ancestors(state, p)):
            return ("raise", "LoopError")
        new = copy_state(state)
        old = state[n][0]
        if old is not None:
            new[old][1] = [c for c in new[old][1] if c != n]
        if p is not None:
            new[p][1].append(n)
        new[n][0] = p
        return ("ok", new)
    if kind == "del":
        new = copy_state(state)
        for c in state[n][1]:
            new[c][0] = None
        new[n][1] = []
        return ("ok", new)
    if kind == "children":
        xs = op[2]
        if isinstance(xs, dict):
            return ("raise", "TypeError")
        seen = set()
        for x in xs:
            if isinstance(x, dict):
                return ("raise", "TreeError") if family == "NM" else ("unspecified", None)
            if x in seen:
                return ("raise", "TreeError")
            seen.add(x)
        anc = ancestors(state, n)
        if any(x == n or x in anc for x in xs):
            return ("raise", "LoopError")
        new = copy_state(state)
        for c in state[n][1]:
            if c not in seen:
                new[c][0] = None
        for u in range(len(state)):
            if u != n:
                new[u][1] = [c for c in new[u][1] if c not in seen]
        new[n][1] = list(xs)
        for x in xs:
            new[x][0] = n
        return ("ok", new)
    raise ValueError(kind)


def spec_log(state, op):
    """Hook log of a *successful* call, from the protocol statement (C16)."""
    kind, n = op[0], op[1]
    log = []
    if kind == "parent":
        p, old = op[2], state[n][0]
        if old == p:
            return log
        if old is not None:
            log += [["pre_detach", n, old], ["post_detach", n, old]]
        if p is not None:
            log += [["pre_attach", n, p], ["post_attach", n, p]]
        return log
    kids = list(state[n][1])
    log.append(["pre_detach_children", n, kids])
    for c in kids:
        log += [["pre_detach", c, n], ["post_detach", c, n]]
    log.append(["post_detach_children", n, kids])
    if kind == "children":
        xs = list(op[2])
        log.append(["pre_attach_children", n, xs])
        for x in xs:
            q = state[x][0]
            if q is not None and q != n:
                log += [["pre_detach", x, q], ["post_detach", x, q]]
            log += [["pre_attach", x, n], ["post_attach", x, n]]
        log.append(["post_attach_children", n, xs])
    return log


# ---------------------------------------------------------------------------
# step model: mirrors the current mutation / rollback algorithm; ONLY used to classify C03 deviations

class ModelRecursion(Exception):
    """The modelled rollback would recurse without bound."""


class StepModel:
    MAX_NEST = 12

    def __init__(self, state, plan):
        self.pre_par = [p for p, _ in state]
        self.par = [p for p, _ in state]
        self.ch = [list(c) for _, c in state]
        plan = plan or {}
        self.once = set(plan.get("once", ()))
        self.persist = {(k, l) for k, l in plan.get("persist", ())}
        self.count = 0
        self.log = []
        self.flags = set()
        self.nest = 0
        self.in_rollback = 0

    def state(self):
        return [[p, list(c)] for p, c in zip(self.par, self.ch)]

    def hook(self, kind, n, arg):
        self.count += 1
        self.log.append([kind, n, arg])
        if self.count in self.once or (kind, n) in self.persist:
            if self.in_rollback:
                self.flags.add("R4")
            raise Veto(kind, n, self.count)

    def anc(self, n):
        out = []
        p = self.par[n]
        while p is not None:
            out.append(p)
            p = self.par[p]
        return out

    def set_parent(self, n, p, top=False):
        old = self.par[n]
        if old == p:
            return
        if p is not None and (p == n or n in self.anc(p)):
            raise LoopError()
        if old is not None:
            self.hook("pre_detach", n, old)
            self.ch[old].remove(n)
            self.par[n] = None
            self.hook("post_detach", n, old)
        if p is not None:
            try:
                self.hook("pre_attach", n, p)
            except Veto:
                if old is not None:
                    # the node has already left its former parent and is not put back
                    self.flags.add("R1" if top else "R1-nested")
                raise
            self.ch[p].append(n)
            self.par[n] = p
            self.hook("post_attach", n, p)

    def del_children(self, n):
        kids = list(self.ch[n])
        self.hook("pre_detach_children", n, kids)
        done = 0
        try:
            for c in kids:
                self.set_parent(c, None)
                done += 1
        except Veto:
            if done:
                self.flags.add("R2")
            raise
        self.hook("post_detach_children", n, kids)

    def set_children(self, n, xs):
        xs = list(xs)
        if len(set(xs)) != len(xs):
            raise TreeError()
        self.nest += 1
        if self.nest > self.MAX_NEST:
            raise ModelRecursion()
        old = list(self.ch[n])
        self.del_children(n)
        try:
            self.hook("pre_attach_children", n, xs)
            for x in xs:
                self.set_parent(x, n)
            self.hook("post_attach_children", n, xs)
        except ModelRecursion:
            raise
        except Exception:  # noqa: BLE001
            # rollback re-assigns the former children; anything taken from elsewhere is not returned
            stranded = [x for x in xs if self.pre_par[x] is not None and self.pre_par[x] != n and self.par[x] != self.pre_par[x]]
            if stranded and not self.in_rollback:
                self.flags.add("R3")
            self.in_rollback += 1
            try:
                self.set_children(n, old)
            finally:
                self.in_rollback -= 1
            raise
        finally:
            self.nest -= 1

    def run(self, op):
        """Returns None or the exception; leaves state/log/flags on the object."""
        try:
            if op[0] == "parent":
                self.set_parent(op[1], op[2], top=True)
            elif op[0] == "children":
                self.set_children(op[1], op[2])
            else:
                self.del_children(op[1])
        except (Veto, TreeError, ModelRecursion) as exc:
            return exc
        return None


# ---------------------------------------------------------------------------
# enumerators

def calls_for(n, family="NM", invalid=False, maxlen=None):
    """Every structural call on a universe of n labelled nodes."""
    labels = list(range(n))
    maxlen = n if maxlen is None else maxlen
    for node in labels:
        for target in [None] + labels:
            yield ["parent", node, target]
        if invalid:
            yield ["parent", node, {"bad": "int"}]
            yield ["parent", node, {"bad": "zero"}]
            yield ["parent", node, {"bad": "empty-str"}]
            if invalid == "look":
                yield ["parent", node, {"bad": "class"}]
                yield ["parent", node, {"bad": "stub"}]
    forms = itertools.cycle(["list", "tuple", "gen"])
    for node in labels:
        for seq in _shapes.sequences(labels, maxlen):
            yield ["children", node, seq, next(forms)]
        if invalid:
            yield ["children", node, {"noniter": "int"}]
            yield ["children", node, {"noniter": "none"}]
            yield ["children", node, [], "str"]
            yield ["children", node, [], "bytes"]
            yield ["children", node, [{"bad": "str"}, {"bad": "str"}], "str"]
            yield ["children", node, [{"bad": "int"}], "bytes"]
            yield ["children", node, [{"bad": "str"}]]
            yield ["children", node, [{"bad": "zero"}]]
            if n > 1:
                yield ["children", node, [(node + 1) % n, {"bad": "int"}]]
            if invalid == "look":
                yield ["children", node, [{"bad": "class"}]]
                if n > 1:
                    yield ["children", node, [(node + 1) % n, {"bad": "stub"}]]
    for node in labels:
        yield ["del", node]


ROUTES = ["parent", "children", "detour"]


def enum_states(n, index, count):
    """(state, route) pairs of this shard: every labelled ordered forest over n nodes, all build routes."""
    k = 0
    for state in _shapes.labelled_forests(n):
        for route in ROUTES:
            k += 1
            if k % count == index:
                yield [[p, list(c)] for p, c in state], route


# ---------------------------------------------------------------------------
# Hypothesis strategies for histories

def history_strategy(max_nodes=7, max_steps=30, faults="none", invalid=False, class_specs=("HNM",), hooks=HOOKS):
    from hypothesis import strategies as st

    @st.composite
    def build(draw):
        n = draw(st.integers(2, max_nodes))
        spec_ = draw(st.sampled_from(list(class_specs)))
        idx = st.integers(0, n - 1)
        node_arg = idx
        if invalid:
            node_arg = st.one_of(idx, idx, idx, idx, st.sampled_from([{"bad": "int"}, {"bad": "str"}, {"bad": "obj"}, {"bad": "zero"}, {"bad": "empty-str"}, {"bad": "false"}, {"bad": "empty-tuple"}] + (LOOKALIKES if invalid == "look" else [])))
        child_list = st.lists(node_arg, max_size=min(n, 5))
        parent_op = st.tuples(st.just("parent"), idx, st.one_of(st.none(), node_arg, node_arg)).map(list)
        children_op = st.tuples(st.just("children"), idx, child_list, st.sampled_from(["list", "tuple", "gen"])).map(list)
        del_op = st.tuples(st.just("del"), idx).map(list)
        ops = [parent_op, parent_op, children_op, children_op, del_op]
        if invalid:
            ops.append(st.tuples(st.just("children"), idx, st.sampled_from([{"noniter": "int"}, {"noniter": "none"}])).map(list))
        op = st.one_of(*ops)
        if faults == "none":
            plan = st.just({})
        else:
            once = st.tuples(st.lists(st.integers(1, 14), min_size=1, max_size=2, unique=True), st.sampled_from([None, None, "assert", "tree", "lookup", "stop", "recursion", "memory"])).map(lambda t: {"once": sorted(t[0]), "exc": t[1]} if t[1] else {"once": sorted(t[0])})
            persist = st.lists(st.tuples(st.sampled_from(list(hooks)), idx).map(list), min_size=1, max_size=3).map(lambda ps: {"persist": ps})
            readonly = st.just({"persist": [[h, i] for i in range(n) for h in ("pre_detach", "pre_attach")]})
            plans = [st.just({}), st.just({}), once, once, persist, readonly]
            if faults == "all+evict":
                plans.append(st.integers(1, 14).map(lambda k: {"base": [k]}))
                plans.append(st.lists(st.integers(1, 14), min_size=1, max_size=3, unique=True).map(lambda ks: {"false": sorted(ks)}))
                plans.append(st.lists(st.integers(1, 14), min_size=1, max_size=4, unique=True).map(lambda ks: {"editlist": sorted(ks)}))
                plans.append(st.lists(idx, min_size=1, max_size=2, unique=True).map(lambda ls: {"sealed": sorted(ls)}))  # only classes built on SealMix react
                plans.append(st.lists(st.tuples(st.sampled_from(["pre_detach", "post_detach", "pre_attach", "post_attach", "pre_detach_children", "post_detach_children", "pre_attach_children", "post_attach_children"]), idx).map(list), min_size=1, max_size=2).map(lambda ps: {"evict": ps}))
            plan = st.one_of(*plans)
        steps = draw(st.lists(st.tuples(op, plan).map(lambda t: {"op": t[0], "plan": t[1]}), min_size=1, max_size=max_steps))
        case = {"cls": spec_, "n": n, "steps": steps}
        # initial forest: all roots, or a random forest (star-biased half of the time so wide nodes are common)
        mode = draw(st.sampled_from(["roots", "forest", "star"]))
        if mode != "roots" and family_of(spec_) != "mixed":
            parents = [None]
            for i in range(1, n):
                if mode == "star":
                    parents.append(0 if draw(st.integers(0, 9)) < 8 else draw(st.one_of(st.none(), st.integers(0, i - 1))))
                else:
                    parents.append(draw(st.one_of(st.none(), st.integers(0, i - 1), st.integers(0, i - 1))))
            case["state"] = [[parents[i], [c for c in range(n) if parents[c] == i]] for i in range(n)]
            case["route"] = draw(st.sampled_from(ROUTES))
        return case

    return build()


# ---------------------------------------------------------------------------
# running a case

class Step:
    __slots__ = ("index", "pre", "op", "plan", "exc", "post", "log", "snaps", "raised")


def all_roots(n):
    return [[None, []] for _ in range(n)]


def run_case(case, per_step, take_snapshots=False):
    """Execute the history of a case on real nodes, calling per_step(step, rec, universe) after every call."""
    state = case.get("state") or all_roots(case["n"])
    rec, universe = make_universe(case["cls"], state, case.get("route", "parent"), take_snapshots)
    built = snapshot(universe, rec.labels)
    if built != [[p, list(c)] for p, c in state]:
        from .core import HarnessError

        raise HarnessError("forest builder produced %s instead of %s" % (built, state))
    for index, item in enumerate(case["steps"]):
        step = Step()
        step.index = index
        step.op = item["op"]
        step.plan = item.get("plan") or {}
        step.pre = snapshot(universe, rec.labels)
        rec.begin_call(step.plan)
        step.exc = execute(universe, step.op)
        step.log, step.snaps, step.raised = rec.log, rec.snaps, rec.raised
        rec.begin_call(None)
        step.post = snapshot(universe, rec.labels)
        per_step(step, rec, universe)
    return rec, universe


def dry_log(base, op, plan):
    """Hook log of one call on a freshly built forest (used only to size the fault space)."""
    from . import core

    rec, universe = make_universe(base["cls"], base["state"], base["route"])
    rec.begin_call(plan)
    core.arm()
    try:
        execute(universe, op)
    except core.CaseTimeout:
        pass  # the case itself is yielded too and will be reported from there
    finally:
        core.arm(0)
    log = rec.log
    rec.begin_call(None)
    return log


def enum_fault_cases(cls, n, index, count, fault_hooks=(), pairs=False, persist=True, readonly=True, invalid=False, maxlen=None, routes=None, evict=False):
    """Single-step cases: every forest x build route x call x fault position of this shard."""
    family = family_of(cls)
    fault_hooks = set(fault_hooks)
    kinds = itertools.cycle([None, "assert", None, "tree", None, "lookup", None, "stop", None, "recursion", "memory"])
    classes = class_list(cls, n)
    for state, route in enum_states(n, index, count):
        if routes is not None and route not in routes:
            continue
        if family == "mixed" and route == "detour":
            continue
        if family == "mixed" and any(p is not None and CLASSES[classes[i]][1] != CLASSES[classes[p]][1] for i, (p, _) in enumerate(state)):
            continue  # a cross-family edge cannot be built (attach raises AttributeError)
        base = {"cls": cls, "n": n, "state": state, "route": route}
        for op in calls_for(n, family, invalid, maxlen):
            yield dict(base, steps=[{"op": op, "plan": {}}])
            if not fault_hooks:
                continue
            log0 = dry_log(base, op, {})
            if not log0:
                continue
            seen = []
            for entry in log0:
                key = (entry[0], entry[1])
                if key not in seen:
                    seen.append(key)
            for k in range(1, len(log0) + 1):
                if log0[k - 1][0] not in fault_hooks:
                    continue
                kind = next(kinds)
                yield dict(base, steps=[{"op": op, "plan": {"once": [k], "exc": kind} if kind else {"once": [k]}}])
                log1 = dry_log(base, op, {"once": [k]})
                for entry in log1:
                    key = (entry[0], entry[1])
                    if key not in seen:
                        seen.append(key)
                if pairs:
                    for k2 in range(k + 1, len(log1) + 1):
                        if log1[k2 - 1][0] in fault_hooks:
                            yield dict(base, steps=[{"op": op, "plan": {"once": [k, k2]}}])
            if persist:
                for kind, label in seen:
                    if kind in fault_hooks and isinstance(label, int):
                        yield dict(base, steps=[{"op": op, "plan": {"persist": [[kind, label]]}}])
            if evict:
                # a hook that RETURNS False at every position (return values of notification hooks mean nothing)
                for k in range(1, len(log0) + 1):
                    yield dict(base, steps=[{"op": op, "plan": {"false": [k]}}])
                # a hook that edits the very list the caller assigned, at every hook position
                if op[0] == "children" and not isinstance(op[2], dict) and (len(op) < 4 or op[3] == "list"):
                    for k in range(1, len(log0) + 1):
                        yield dict(base, steps=[{"op": op, "plan": {"editlist": [k]}}])
                # an interrupt-like BaseException from every hook position
                for k in range(1, len(log0) + 1):
                    yield dict(base, steps=[{"op": op, "plan": {"base": [k]}}])
                for kind, label in seen:
                    if isinstance(label, int):
                        yield dict(base, steps=[{"op": op, "plan": {"evict": [[kind, label]]}}])
            if readonly:
                yield dict(base, steps=[{"op": op, "plan": {"persist": [[h, i] for i in range(n) for h in ("pre_detach", "pre_attach")]}}])


# ---------------------------------------------------------------------------
# blind histories: no read of the forest between the calls

def run_blind(case):
    """Execute a fault-free history from the all-roots forest WITHOUT reading .parent/.children in between
    (reads may create lazily built internal state and so repair or mask a slip).  Returns (records, universe, rec)
    with records = [(op, exception or None, hook log)]."""
    n = case["n"]
    rec = Recorder()
    CURRENT[0] = rec
    universe = create_nodes(class_list(case["cls"], n))
    for node in universe:
        rec.labels.add(node)
    rec.universe = universe
    records = []
    for item in case["steps"]:
        rec.begin_call(item.get("plan"))
        exc = execute(universe, item["op"])
        records.append((item["op"], exc, rec.log))
        rec.begin_call(None)
    return records, universe, rec


def blind_sequences(spec, n, length, index, count):
    ops = [op for op in calls_for(n, "NM", invalid=False)]
    k = 0
    for seq in itertools.product(ops, repeat=length):
        k += 1
        if k % count == index:
            yield {"kind": "blind", "cls": spec, "n": n, "steps": [{"op": op} for op in seq]}
