"""Coverage-guided supplement (atheris/libFuzzer) for C07 and C08.

    python -m vf.fuzz <C07|C08> <out.json> [libFuzzer args, e.g. -runs=20000 -seed=1]

The fuzz target is the property's own Hypothesis test (strategy + oracle): libFuzzer's bytes drive Hypothesis'
choice sequence through `test.hypothesis.fuzz_one_input`, with anytree instrumented for coverage.  The oracle is
inside the target; on a violation the failing case is written to <out.json> and the process exits with status 3.
Exit 0 = the campaign ended without a violation.  libFuzzer's -seed pins a campaign only approximately; the saved
case is the reproducible unit (replay with run.py <id> --replay).
"""
import importlib
import json
import os
import sys

ROOT = os.path.dirname(os.path.dirname(os.path.abspath(__file__)))


def main():
    prop, out = sys.argv[1], sys.argv[2]
    rest = sys.argv[3:]
    sys.path.insert(0, ROOT)
    from vf import core

    core._setup_import_path()
    import atheris

    with atheris.instrument_imports(include=["anytree"]):
        import anytree  # noqa: F401
        import anytree.resolver  # noqa: F401
    mod = importlib.import_module("vf.props.%s" % prop.lower())
    from hypothesis import HealthCheck, given, settings

    acc = core.Acc()
    state = {"n": 0, "nontrivial": 0}

    @settings(database=None, deadline=None, suppress_health_check=list(HealthCheck))
    @given(mod.random_cases())
    def test(case):
        state["n"] += 1
        exc = acc.evaluate(mod.check_case, case, enumerated=False)
        if exc is not None:
            with open(out, "w") as fh:
                json.dump({"violation": {"clause": exc.clause, "detail": str(exc.detail)[:3000], "case": core.jsonable(case)}, "executions": state["n"]}, fh)
            os._exit(3)

    import signal

    signal.signal(signal.SIGALRM, core._on_alarm)

    def finish():
        with open(out, "w") as fh:
            json.dump({"violation": None, "executions": acc.evaluations, "distinct_nontrivial": len(acc.nontrivial_hashes), "known": dict(acc.known), "known_examples": acc.known_examples, "tags": dict(acc.tags)}, fh)

    import atexit

    atexit.register(finish)
    # libFuzzer does not run atexit handlers on a normal end of -runs; write progress periodically instead
    target = test.hypothesis.fuzz_one_input

    def one(data):
        target(data)
        if acc.evaluations % 500 == 0:
            finish()

    atheris.Setup([sys.argv[0]] + rest, one)
    atheris.Fuzz()


if __name__ == "__main__":
    main()
