"""Hypothesis strategies shared by the property modules."""
from hypothesis import strategies as st

from . import shapes as _shapes


@st.composite
def tree_shapes(draw, max_nodes=60, min_nodes=1):
    """Ordered tree shapes as nested lists.

    Mixture of uniform parent arrays (parent[i] in [0, i): reaches every ordered tree),
    chain-biased and star-biased arrays, so deep and wide trees are both common.
    """
    n = draw(st.integers(min_nodes, max_nodes))
    mode = draw(st.sampled_from(["uniform", "uniform", "chain", "star", "recent"]))
    parents = [None]
    for i in range(1, n):
        if mode == "uniform":
            p = draw(st.integers(0, i - 1))
        elif mode == "chain":
            p = i - 1 if draw(st.integers(0, 9)) < 8 else draw(st.integers(0, i - 1))
        elif mode == "star":
            p = 0 if draw(st.integers(0, 9)) < 7 else draw(st.integers(0, i - 1))
        else:
            p = draw(st.integers(max(0, i - 3), i - 1))
        parents.append(p)
    shape = _shapes.parents_to_shape(parents)
    return _to_list(shape)


def _to_list(shape):
    return [_to_list(c) for c in shape]


def subsets_of(n, max_size=None):
    return st.lists(st.integers(0, max(n - 1, 0)), unique=True, max_size=n if max_size is None else max_size).map(sorted)


def tree_mutation_op(rename_values=None):
    idx = st.integers(0, 60)
    ops = [
        st.tuples(st.just("move"), idx, idx).map(list),
        st.tuples(st.just("move"), idx, idx).map(list),
        st.tuples(st.just("detach"), idx).map(list),
        st.tuples(st.just("reverse"), idx).map(list),
    ]
    if rename_values is not None:
        ops.append(st.tuples(st.just("rename"), idx, rename_values).map(list))
    return st.one_of(*ops)


def tree_mutations(max_ops=3, rename_values=None):
    """0..max_ops mutations applied between repeated evaluations of a read-only query (see refs.mutate_tree)."""
    return st.lists(tree_mutation_op(rename_values), max_size=max_ops)
