"""Exhaustive enumerators: ordered trees by size, labelled ordered forests, subsets."""
import functools
import itertools


@functools.lru_cache(maxsize=None)
def trees(n):
    """All ordered rooted trees with n nodes, as nested tuples of children."""
    if n < 1:
        return ()
    return tuple(forests(n - 1))


@functools.lru_cache(maxsize=None)
def forests(m):
    """All ordered forests with m nodes in total (tuples of trees)."""
    if m == 0:
        return ((),)
    out = []
    for k in range(1, m + 1):
        for first in trees(k):
            for rest in forests(m - k):
                out.append((first,) + rest)
    return tuple(out)


def trees_upto(n, start=1):
    for size in range(start, n + 1):
        for shape in trees(size):
            yield shape


def shape_size(shape):
    return 1 + sum(shape_size(c) for c in shape)


def shape_height(shape):
    return 1 + max(shape_height(c) for c in shape) if shape else 0


def shape_to_parents(shape):
    """Pre-order parent array: parents[0] is None; children in index order."""
    parents = []

    def walk(node, parent):
        idx = len(parents)
        parents.append(parent)
        for child in node:
            walk(child, idx)

    walk(shape, None)
    return parents


def parents_to_shape(parents):
    kids = [[] for _ in parents]
    for idx, parent in enumerate(parents):
        if parent is not None:
            kids[parent].append(idx)

    def build(idx):
        return tuple(build(k) for k in kids[idx])

    return build(0)


def labelled_forests(n):
    """All labelled ordered forests over labels 0..n-1.

    A forest state is a tuple of (parent, children) per label with children an
    ordered tuple.  Counts: 1, 3, 19, 193, 2721 for n = 1..5.
    """
    labels = range(n)

    def acyclic(par):
        for start in labels:
            seen = 0
            node = start
            while node is not None:
                node = par[node]
                seen += 1
                if seen > n:
                    return False
        return True

    for par in itertools.product([None] + list(labels), repeat=n):
        if any(par[i] == i for i in labels):
            continue
        if not acyclic(par):
            continue
        kids = [[i for i in labels if par[i] == p] for p in labels]
        for orders in itertools.product(*[list(itertools.permutations(k)) for k in kids]):
            yield tuple((par[i], tuple(orders[i])) for i in labels)


def subsets(items):
    items = list(items)
    for mask in range(1 << len(items)):
        yield [items[i] for i in range(len(items)) if mask >> i & 1]


def sequences(labels, maxlen):
    """All sequences (with repeats) over labels of length 0..maxlen."""
    labels = list(labels)
    for length in range(maxlen + 1):
        for seq in itertools.product(labels, repeat=length):
            yield list(seq)
