#!/bin/bash
# usage: tools/seedround.sh <source root, e.g. /tmp/seed3> <name of variant A> <name of variant B> <PROP>...
# confirm and check the two variants of a later seeding round; PROPS env selects the checks (default: the property's own)
cd "$(dirname "$0")/.."
root=$1; a=$2; b=$3; shift 3
for p in "$@"; do
  ./tools/seedcheck.py $p A --src $root/$p/SEED --name $p-$a --props ${PROPS:-$p}
  ./tools/seedcheck.py $p B --src $root/$p/SEED --name $p-$b --props ${PROPS:-$p}
done
