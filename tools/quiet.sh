#!/bin/bash
# run every check at several seeds on the unchanged tree; print anything that is not a clean exit 0
cd "$(dirname "$0")/.."
tier=${1:-quick}; shift
seeds=${@:-1 2 3 4 5}
for s in $seeds; do
  for p in $(/venv/bin/python run.py --list); do
    out=$(VERIF_SEED=$s /venv/bin/python run.py $p --tier $tier 2>&1); code=$?
    last=$(echo "$out" | tail -1)
    if [ $code -ne 0 ] || echo "$out" | grep -q "VIOLATION\|HARNESS-ERROR"; then echo "!! seed=$s $p exit=$code"; echo "$out" | head -20; else echo "seed=$s $last"; fi
  done
done
git checkout -q -- evidence 2>/dev/null
