#!/venv/bin/python
"""Confirm a seeded breakage produced by a sub-agent and run the checks against it.

usage: tools/seedcheck.py <PROP> <A|B> [--props C01,C02|all] [--tier quick]

Reads /tmp/seed/<PROP>/SEED/variant<X>.diff, demo_<X>.py, notes_<X>.md.  In a fresh scratch worktree of /repo
(removed afterwards) it (1) runs the demo on the pristine tree (must exit 0), (2) applies the diff, runs the pinned
test-suite (must stay at 160 passed) and the demo (must exit non-zero), (3) runs the requested checks with VERIF_REPO
pointing at the patched worktree.  Confirmed seeds are stored under /verif/seeded/<PROP>-<X>/.
"""
import argparse
import json
import os
import re
import shutil
import subprocess
import sys
import time

ROOT = os.path.dirname(os.path.dirname(os.path.abspath(__file__)))


def sh(cmd, timeout=900, **kw):
    """Run a shell command in its own process group; on timeout the whole group is killed (a mutant may loop forever)."""
    import signal

    proc = subprocess.Popen(cmd, shell=True, stdout=subprocess.PIPE, stderr=subprocess.STDOUT, text=True, start_new_session=True, **kw)
    try:
        out, _ = proc.communicate(timeout=timeout)
        return subprocess.CompletedProcess(cmd, proc.returncode, stdout=out)
    except subprocess.TimeoutExpired:
        try:
            os.killpg(proc.pid, signal.SIGKILL)
        except OSError:
            pass
        out, _ = proc.communicate()
        return subprocess.CompletedProcess(cmd, 124, stdout="TIMEOUT after %ss\n%s" % (timeout, (out or "")[-400:]))


def main():
    ap = argparse.ArgumentParser()
    ap.add_argument("prop")
    ap.add_argument("variant")
    ap.add_argument("--props", default="all")
    ap.add_argument("--tier", default="quick")
    ap.add_argument("--src")
    ap.add_argument("--name", help="directory name under seeded/ (default <PROP>-<variant>)")
    args = ap.parse_args()
    src = args.src or "/tmp/seed/%s/SEED" % args.prop
    name = args.name or "%s-%s" % (args.prop, args.variant)
    dest = os.path.join(ROOT, "seeded", name)
    diff = os.path.join(src, "variant%s.diff" % args.variant)
    demo = os.path.join(src, "demo_%s.py" % args.variant)
    notes = os.path.join(src, "notes_%s.md" % args.variant)
    if not os.path.exists(diff):  # re-run from the stored copy
        diff, demo, notes = os.path.join(dest, "patch.diff"), os.path.join(dest, "demo.py"), os.path.join(dest, "notes.md")
    wt = "/tmp/vseed/%s" % name
    sh("git -C /repo worktree remove --force %s" % wt)
    shutil.rmtree(wt, ignore_errors=True)
    os.makedirs("/tmp/vseed", exist_ok=True)
    res = sh("git -C /repo worktree add --detach %s HEAD" % wt)
    if res.returncode:
        print(res.stdout)
        return 2
    meta = {"property": args.prop, "variant": args.variant, "ran": {}}
    try:
        os.makedirs(os.path.join(wt, "SEED"), exist_ok=True)
        shutil.copy(demo, os.path.join(wt, "SEED", "demo.py"))
        r = sh("cd %s && /venv/bin/python SEED/demo.py" % wt, timeout=300)
        meta["ran"]["demo_on_pristine_exit"] = r.returncode
        r = sh("git -C %s apply %s" % (wt, diff))
        if r.returncode:
            print("diff does not apply:", r.stdout)
            return 2
        r = sh("cd %s && /venv/bin/python -m pytest -q -p no:cacheprovider --deselect tests/test_dotexport.py 2>&1 | tail -1" % wt, timeout=600)
        meta["ran"]["tests_with_change"] = r.stdout.strip()
        r = sh("cd %s && /venv/bin/python SEED/demo.py" % wt, timeout=300)
        meta["ran"]["demo_with_change_exit"] = r.returncode
        meta["ran"]["demo_with_change_output"] = r.stdout[-600:]
        confirmed = meta["ran"]["demo_on_pristine_exit"] == 0 and meta["ran"]["demo_with_change_exit"] != 0 and "160 passed" in meta["ran"]["tests_with_change"]
        meta["confirmed"] = confirmed
        if args.props == "all":
            props = sh("cd %s && /venv/bin/python run.py --list" % ROOT).stdout.split()
        elif args.props == "prev":  # the property's own check plus every check that caught this seed before
            props = [args.prop]
            if os.path.exists(os.path.join(dest, "meta.json")):
                props += [p for p in json.load(open(os.path.join(dest, "meta.json"))).get("caught_by", []) if p != args.prop]
        else:
            props = args.props.split(",")
        checks = {}
        for prop in props:
            t0 = time.time()
            r = sh("cd %s && /venv/bin/python run.py %s --tier %s" % (ROOT, prop, args.tier), env=dict(os.environ, VERIF_REPO=wt, VERIF_EVIDENCE_DIR="/tmp/vf-scratch/evidence", VERIF_REPLAY_DIR="/tmp/vf-scratch/replays"))
            clauses = [l.split("clause:", 1)[1].strip() for l in r.stdout.splitlines() if "clause:" in l]
            checks[prop] = {"exit": r.returncode, "clauses": clauses, "seconds": round(time.time() - t0, 1)}
            if r.returncode == 2:
                checks[prop]["output"] = r.stdout[-800:]
        meta["checks_%s" % args.tier] = checks
        meta["caught_by"] = sorted(p for p, c in checks.items() if c["exit"] == 1)
        meta["checks_run"] = sorted(checks)
    finally:
        sh("git -C /repo worktree remove --force %s" % wt)
        shutil.rmtree(wt, ignore_errors=True)
        sh("git -C /repo worktree prune")
        sh("rm -rf /tmp/vf-scratch")
    if meta.get("confirmed"):
        os.makedirs(dest, exist_ok=True)
        if os.path.abspath(diff) != os.path.abspath(os.path.join(dest, "patch.diff")):
            shutil.copy(diff, os.path.join(dest, "patch.diff"))
            shutil.copy(demo, os.path.join(dest, "demo.py"))
            if os.path.exists(notes):
                shutil.copy(notes, os.path.join(dest, "notes.md"))
        old = {}
        if os.path.exists(os.path.join(dest, "meta.json")):
            old = json.load(open(os.path.join(dest, "meta.json")))
        old.update(meta)
        if os.path.exists(os.path.join(dest, "notes.md")):
            old["needs_to_manifest"] = open(os.path.join(dest, "notes.md")).read()[:1500]
        old["breaks_property"] = args.prop
        old["how_to_run"] = "git -C /repo apply seeded/%s/patch.diff; /venv/bin/python run.py <check> --tier quick; git -C /repo checkout -- .   (this file was produced with tools/seedcheck.py, which uses a scratch worktree + VERIF_REPO instead)" % name
        json.dump(old, open(os.path.join(dest, "meta.json"), "w"), indent=1)
    print("%s confirmed=%s tests=%r demo(pristine/changed)=%s/%s caught_by=%s" % (name, meta.get("confirmed"), meta["ran"].get("tests_with_change"), meta["ran"].get("demo_on_pristine_exit"), meta["ran"].get("demo_with_change_exit"), meta.get("caught_by")))
    for p, c in meta.get("checks_%s" % args.tier, {}).items():
        if c["exit"] != 0:
            print("   %s exit=%d %s %ss" % (p, c["exit"], c["clauses"][:3], c["seconds"]))
            if c["exit"] == 2:
                print(c.get("output"))
    return 0


if __name__ == "__main__":
    sys.exit(main())
