#!/venv/bin/python
"""Systematic sensitivity measurement: generate syntactic mutants of anytree and see who kills them.

usage: tools/automut.py [--files anytree/resolver.py,...] [--limit N] [--offset K] [--out automut.json] [--jobs-check-order ...]

For every mutant (one AST-level change: comparison operator swap, is/is not, and/or, +/-1 on integer constants,
removed 'not', dropped statement (continue/break/return/raise/expression call), True/False swap, slice bound shift):
  1. write the mutated file into a scratch worktree of /repo (never /repo itself),
  2. run the pinned test-suite: 'killed by suite' if it fails,
  3. otherwise run the quick checks (those anchored in the mutated file first) until one reports a VIOLATION.
Results are appended to the JSON file so the run can be resumed.
"""
import argparse
import ast
import copy
import json
import os
import shutil
import subprocess
import sys
import time

ROOT = os.path.dirname(os.path.dirname(os.path.abspath(__file__)))
WT = "/tmp/vautomut/wt"

FILES = [
    "anytree/node/nodemixin.py", "anytree/node/lightnodemixin.py", "anytree/node/node.py", "anytree/node/anynode.py",
    "anytree/node/symlinknode.py", "anytree/node/symlinknodemixin.py", "anytree/node/util.py", "anytree/util/__init__.py",
    "anytree/iterators/abstractiter.py", "anytree/iterators/preorderiter.py", "anytree/iterators/postorderiter.py",
    "anytree/iterators/levelorderiter.py", "anytree/iterators/levelordergroupiter.py", "anytree/iterators/zigzaggroupiter.py",
    "anytree/resolver.py", "anytree/walker.py", "anytree/search.py", "anytree/cachedsearch.py", "anytree/render.py",
    "anytree/exporter/dictexporter.py", "anytree/exporter/jsonexporter.py", "anytree/exporter/dotexporter.py",
    "anytree/exporter/mermaidexporter.py", "anytree/importer/dictimporter.py", "anytree/importer/jsonimporter.py",
]
ORDER = {
    "node/": ["C02", "C03", "C16", "C01", "C18", "C04", "C17", "C20", "C19", "C09", "C10"],
    "util": ["C04", "C17", "C18"],
    "iterators": ["C06", "C05", "C14", "C12", "C13", "C04", "C08", "C17"],
    "resolver": ["C07", "C08", "C17", "C18"],
    "walker": ["C15", "C07", "C17", "C18"],
    "search": ["C14", "C17"],
    "render": ["C09", "C17", "C18"],
    "dictexporter": ["C10", "C11"], "jsonexporter": ["C11"], "dictimporter": ["C10", "C11"], "jsonimporter": ["C11"],
    "dotexporter": ["C12", "C17"], "mermaidexporter": ["C13", "C17"],
}
ALL = ["C%02d" % i for i in range(1, 21)]
CMP = {ast.Lt: ast.LtE, ast.LtE: ast.Lt, ast.Gt: ast.GtE, ast.GtE: ast.Gt, ast.Eq: ast.NotEq, ast.NotEq: ast.Eq, ast.Is: ast.IsNot, ast.IsNot: ast.Is, ast.In: ast.NotIn, ast.NotIn: ast.In}


def mutants_of(src):
    """Yield (description, mutated source)."""
    tree = ast.parse(src)
    nodes = [n for n in ast.walk(tree)]
    sites = []
    for idx, node in enumerate(nodes):
        if isinstance(node, ast.Compare) and len(node.ops) == 1 and type(node.ops[0]) in CMP:
            sites.append((idx, "cmp"))
        elif isinstance(node, ast.BoolOp):
            sites.append((idx, "boolop"))
        elif isinstance(node, ast.UnaryOp) and isinstance(node.op, ast.Not):
            sites.append((idx, "not"))
        elif isinstance(node, ast.Constant) and isinstance(node.value, bool):
            sites.append((idx, "bool"))
        elif isinstance(node, ast.Constant) and isinstance(node.value, int) and not isinstance(node.value, bool):
            sites.append((idx, "int+"))
            sites.append((idx, "int-"))
        elif isinstance(node, ast.BinOp) and isinstance(node.op, (ast.Add, ast.Sub)):
            sites.append((idx, "addsub"))
        elif isinstance(node, (ast.Continue, ast.Break)):
            sites.append((idx, "drop"))
        elif isinstance(node, ast.Expr) and isinstance(node.value, ast.Call):
            sites.append((idx, "drop"))
        elif isinstance(node, ast.Raise):
            sites.append((idx, "drop"))
        elif isinstance(node, ast.If) and not node.orelse:
            sites.append((idx, "if-true"))
            sites.append((idx, "if-false"))
        elif isinstance(node, ast.Assign) and len(node.targets) == 1 and isinstance(node.value, (ast.Name, ast.Attribute, ast.Constant)) and not (isinstance(node.value, ast.Constant) and isinstance(node.value.value, str)):
            sites.append((idx, "drop"))
    for idx, kind in sites:
        new = copy.deepcopy(tree)
        node = list(ast.walk(new))[idx]
        line = getattr(node, "lineno", 0)
        try:
            if kind == "cmp":
                old = type(node.ops[0]).__name__
                node.ops = [CMP[type(node.ops[0])]()]
                desc = "%s -> %s" % (old, type(node.ops[0]).__name__)
            elif kind == "boolop":
                old = type(node.op).__name__
                node.op = ast.Or() if isinstance(node.op, ast.And) else ast.And()
                desc = "%s -> %s" % (old, type(node.op).__name__)
            elif kind == "not":
                parent_fix = ast.copy_location(node.operand, node)
                node.__class__ = parent_fix.__class__
                node.__dict__.clear()
                node.__dict__.update(parent_fix.__dict__)
                desc = "remove not"
            elif kind == "bool":
                node.value = not node.value
                desc = "flip bool constant"
            elif kind in ("int+", "int-"):
                node.value = node.value + (1 if kind == "int+" else -1)
                desc = "int constant %s1" % ("+" if kind == "int+" else "-")
            elif kind == "addsub":
                node.op = ast.Sub() if isinstance(node.op, ast.Add) else ast.Add()
                desc = "swap + and -"
            elif kind == "drop":
                desc = "drop statement %s" % type(node).__name__
                repl = ast.copy_location(ast.Pass(), node)
                node.__class__ = ast.Pass
                node.__dict__.clear()
                node.__dict__.update(repl.__dict__)
            elif kind == "if-true":
                node.test = ast.copy_location(ast.Constant(True), node.test)
                desc = "if condition -> True"
            elif kind == "if-false":
                node.test = ast.copy_location(ast.Constant(False), node.test)
                desc = "if condition -> False"
            out = ast.unparse(ast.fix_missing_locations(new))
        except Exception:  # noqa: BLE001
            continue
        yield "L%d %s" % (line, desc), out


def sh(cmd, timeout=900, **kw):
    """Run a shell command in its own process group; on timeout the whole group is killed (a mutant may loop forever)."""
    import signal

    proc = subprocess.Popen(cmd, shell=True, stdout=subprocess.PIPE, stderr=subprocess.STDOUT, text=True, start_new_session=True, **kw)
    try:
        out, _ = proc.communicate(timeout=timeout)
        return subprocess.CompletedProcess(cmd, proc.returncode, stdout=out)
    except subprocess.TimeoutExpired:
        try:
            os.killpg(proc.pid, signal.SIGKILL)
        except OSError:
            pass
        out, _ = proc.communicate()
        return subprocess.CompletedProcess(cmd, 124, stdout="TIMEOUT after %ss\n%s" % (timeout, (out or "")[-400:]))


def check_order(path):
    first = []
    for key, props in ORDER.items():
        if key in path:
            first = props
            break
    return first + [p for p in ALL if p not in first]


def main():
    ap = argparse.ArgumentParser()
    ap.add_argument("--files")
    ap.add_argument("--limit", type=int, default=10 ** 9)
    ap.add_argument("--stride", type=int, default=1, help="take every k-th mutant")
    ap.add_argument("--offset", type=int, default=0)
    ap.add_argument("--out", default=os.path.join(ROOT, "seeded", "automut.json"))
    ap.add_argument("--max-checks", type=int, default=20)
    args = ap.parse_args()
    files = args.files.split(",") if args.files else FILES
    results = json.load(open(args.out)) if os.path.exists(args.out) else {}
    sh("git -C /repo worktree remove --force %s" % WT)
    shutil.rmtree(WT, ignore_errors=True)
    os.makedirs(os.path.dirname(WT), exist_ok=True)
    r = sh("git -C /repo worktree add --detach %s HEAD" % WT)
    if r.returncode:
        print(r.stdout)
        return 2
    done = 0
    try:
        for path in files:
            orig = open(os.path.join(WT, path)).read()
            # unparse the original once so that only the mutation differs
            for k, (desc, mutated) in enumerate(mutants_of(orig)):
                if k % args.stride != args.offset % args.stride:
                    continue
                key = "%s :: %s :: #%d" % (path, desc, k)
                if key in results:
                    continue
                if done >= args.limit:
                    raise KeyboardInterrupt
                open(os.path.join(WT, path), "w").write(mutated)
                entry = {"file": path, "mutation": desc}
                t0 = time.time()
                r = sh("cd %s && /venv/bin/python -m pytest -q -x -p no:cacheprovider --deselect tests/test_dotexport.py 2>&1 | tail -1" % WT, timeout=300)
                entry["suite"] = "passes" if " passed" in r.stdout and "failed" not in r.stdout and "error" not in r.stdout.lower() else "fails"
                if entry["suite"] == "passes":
                    entry["killed_by"] = None
                    entry["checks_run"] = []
                    for prop in check_order(path)[: args.max_checks]:
                        env = dict(os.environ, VERIF_REPO=WT, VERIF_EVIDENCE_DIR="/tmp/vautomut/evidence", VERIF_REPLAY_DIR="/tmp/vautomut/replays", VERIF_SHRINK_BUDGET="2")
                        rr = sh("cd %s && /venv/bin/python run.py %s --tier quick" % (ROOT, prop), env=env)
                        entry["checks_run"].append(prop)
                        if rr.returncode == 1:
                            clauses = [l.split("clause:", 1)[1].strip() for l in rr.stdout.splitlines() if "clause:" in l]
                            entry["killed_by"] = prop
                            entry["clause"] = clauses[:2]
                            break
                        if rr.returncode not in (0, 1):
                            entry.setdefault("harness_errors", []).append(prop)
                entry["seconds"] = round(time.time() - t0, 1)
                results[key] = entry
                done += 1
                open(os.path.join(WT, path), "w").write(orig)
                json.dump(results, open(args.out, "w"), indent=1)
                print("%-110s suite=%s killed_by=%s %ss" % (key[:110], entry["suite"], entry.get("killed_by"), entry["seconds"]), flush=True)
            open(os.path.join(WT, path), "w").write(orig)
    except KeyboardInterrupt:
        pass
    finally:
        sh("git -C /repo worktree remove --force %s" % WT)
        shutil.rmtree("/tmp/vautomut", ignore_errors=True)
        sh("git -C /repo worktree prune")
    tot = len(results)
    suite = sum(1 for e in results.values() if e["suite"] == "fails")
    survived_suite = tot - suite
    killed = sum(1 for e in results.values() if e["suite"] == "passes" and e.get("killed_by"))
    print("mutants=%d killed_by_suite=%d survive_suite=%d of those killed_by_checks=%d alive=%d" % (tot, suite, survived_suite, killed, survived_suite - killed))
    return 0


if __name__ == "__main__":
    sys.exit(main())
