#!/venv/bin/python
"""Sensitivity runs: apply small mutations to a scratch worktree of /repo and run checks against it.

usage: tools/mutcheck.py [--tests] [--tier quick] [--only NAME[,NAME]] [--props C05,C06] tools/mutants/<file>.py

The mutant file is a Python file defining MUTANTS = [ {name, file, old, new, props:[...]} , ...].
Each mutant gets its own worktree under /tmp/vmut (removed afterwards).  With --tests the pinned
test-suite is run on the mutant first (a useful mutant passes it).  Nothing is ever applied to /repo.
"""
import argparse
import json
import os
import shutil
import subprocess
import sys
import time

ROOT = os.path.dirname(os.path.dirname(os.path.abspath(__file__)))
BASE = "/tmp/vmut"


def sh(cmd, timeout=900, **kw):
    """Run a shell command in its own process group; on timeout the whole group is killed (a mutant may loop forever)."""
    import signal

    proc = subprocess.Popen(cmd, shell=True, stdout=subprocess.PIPE, stderr=subprocess.STDOUT, text=True, start_new_session=True, **kw)
    try:
        out, _ = proc.communicate(timeout=timeout)
        return subprocess.CompletedProcess(cmd, proc.returncode, stdout=out)
    except subprocess.TimeoutExpired:
        try:
            os.killpg(proc.pid, signal.SIGKILL)
        except OSError:
            pass
        out, _ = proc.communicate()
        return subprocess.CompletedProcess(cmd, 124, stdout="TIMEOUT after %ss\n%s" % (timeout, (out or "")[-400:]))


def main():
    ap = argparse.ArgumentParser()
    ap.add_argument("spec")
    ap.add_argument("--tests", action="store_true")
    ap.add_argument("--tier", default="quick")
    ap.add_argument("--only")
    ap.add_argument("--props")
    ap.add_argument("--json")
    args = ap.parse_args()
    ns = {}
    exec(open(args.spec).read(), ns)
    mutants = ns["MUTANTS"]
    if args.only:
        mutants = [m for m in mutants if m["name"] in args.only.split(",")]
    os.makedirs(BASE, exist_ok=True)
    results = []
    for mut in mutants:
        wt = os.path.join(BASE, mut["name"])
        sh("git -C /repo worktree remove --force %s" % wt)
        shutil.rmtree(wt, ignore_errors=True)
        res = sh("git -C /repo worktree add --detach %s HEAD" % wt)
        if res.returncode:
            print(res.stdout)
            return 2
        row = {"name": mut["name"], "checks": {}}
        try:
            edits = mut.get("edits") or [mut]
            for edit in edits:
                path = os.path.join(wt, edit["file"])
                src = open(path).read()
                if src.count(edit["old"]) != edit.get("count", 1):
                    raise SystemExit("mutant %s: pattern occurs %d times in %s" % (mut["name"], src.count(edit["old"]), edit["file"]))
                open(path, "w").write(src.replace(edit["old"], edit["new"]))
            if args.tests:
                res = sh("cd %s && /venv/bin/python -m pytest -q -p no:cacheprovider -x --deselect tests/test_dotexport.py 2>&1 | tail -3" % wt)
                row["tests"] = res.stdout.strip().splitlines()[-1] if res.stdout.strip() else "?"
            props = args.props.split(",") if args.props else mut["props"]
            for prop in props:
                t0 = time.time()
                env = dict(os.environ, VERIF_REPO=wt, VERIF_EVIDENCE_DIR="/tmp/vf-scratch/evidence", VERIF_REPLAY_DIR="/tmp/vf-scratch/replays")
                res = sh("cd %s && /venv/bin/python run.py %s --tier %s" % (ROOT, prop, args.tier), env=env)
                clauses = [l.split("clause:", 1)[1].strip() for l in res.stdout.splitlines() if "clause:" in l]
                row["checks"][prop] = {"exit": res.returncode, "clauses": clauses, "s": round(time.time() - t0, 1)}
                if res.returncode == 2:
                    row["checks"][prop]["out"] = res.stdout[-1500:]
        finally:
            sh("git -C /repo worktree remove --force %s" % wt)
            shutil.rmtree(wt, ignore_errors=True)
            sh("rm -rf /tmp/vf-scratch")
        results.append(row)
        caught = [p for p, r in row["checks"].items() if r["exit"] == 1]
        print("%-45s tests=%-28s caught_by=%s %s" % (mut["name"], row.get("tests", "-"), ",".join(caught) or "NONE", {p: (r["exit"], r["clauses"][:2], r["s"]) for p, r in row["checks"].items()}))
        for p, r in row["checks"].items():
            if r["exit"] == 2:
                print(r.get("out"))
    sh("git -C /repo worktree prune")
    if args.json:
        json.dump(results, open(args.json, "w"), indent=1)
    return 0


if __name__ == "__main__":
    sys.exit(main())
