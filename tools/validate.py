#!/opt/veriftools/pyvenv/bin/python
"""Validate MANIFEST.json and evidence/*.json against the schemas in /root/.vp (needs jsonschema: python3-vt)."""
import glob
import json
import os
import sys

import jsonschema

ROOT = os.path.dirname(os.path.dirname(os.path.abspath(__file__)))
VP = "/root/.vp"
ok = True
man = json.load(open(os.path.join(ROOT, "MANIFEST.json")))
try:
    jsonschema.validate(man, json.load(open(os.path.join(VP, "MANIFEST.schema.json"))))
    print("MANIFEST ok: %d checks, %d not_applicable" % (len(man["checks"]), len(man.get("not_applicable", []))))
except jsonschema.ValidationError as exc:
    ok = False
    print("MANIFEST INVALID:", exc.message)
props = [json.loads(l)["id"] for l in open(os.path.join(ROOT, "properties.jsonl")) if l.strip()]
claimed = [c["property_id"] for c in man["checks"]]
na = [c["property_id"] for c in man.get("not_applicable", [])]
for p in props:
    if (p in claimed) == (p in na):
        ok = False
        print("property %s: claimed=%s not_applicable=%s" % (p, p in claimed, p in na))
schema = json.load(open(os.path.join(VP, "EVIDENCE.schema.json")))
for path in sorted(glob.glob(os.path.join(ROOT, "evidence", "*.json"))):
    try:
        jsonschema.validate(json.load(open(path)), schema)
    except jsonschema.ValidationError as exc:
        ok = False
        print("EVIDENCE INVALID %s: %s" % (path, exc.message))
    else:
        print("evidence ok:", os.path.basename(path))
sys.exit(0 if ok else 1)
