#!/bin/bash
# confirm and check the second round of seeded changes (variants A/B of round 2 are stored as C/D)
cd "$(dirname "$0")/.."
for p in "$@"; do
  ./tools/seedcheck.py $p A --src /tmp/seed2/$p/SEED --name $p-C --props ${PROPS:-all}
  ./tools/seedcheck.py $p B --src /tmp/seed2/$p/SEED --name $p-D --props ${PROPS:-all}
done
