#!/venv/bin/python
"""Generate MANIFEST.json from the table below (kept in one place so it stays valid)."""
import json
import os

ROOT = os.path.dirname(os.path.dirname(os.path.abspath(__file__)))
BASELINE_OFF = "cd /repo && /venv/bin/python -m pytest -ra -q -p no:cacheprovider --timeout=900 --continue-on-collection-errors"

CHECKS = {}
NOT_APPLICABLE = {}


def check(pid, category, text, note, technique, design_ref):
    CHECKS[pid] = {
        "property_id": pid,
        "quick_cmd": "/venv/bin/python run.py %s --tier quick" % pid,
        "thorough_cmd": "/venv/bin/python run.py %s --tier thorough" % pid,
        "evidence_file": "/verif/evidence/%s.json" % pid,
        "replay_cmd_template": "/venv/bin/python run.py %s --replay {path}" % pid,
        "engine": "vf",
        "level_claimed": {"category": category, "text": text, "design_ref": design_ref},
        "level_note": note,
        "technique": technique,
    }


exec(open(os.path.join(ROOT, "tools", "manifest_entries.py")).read())

ALL = [json.loads(l)["id"] for l in open(os.path.join(ROOT, "properties.jsonl")) if l.strip()]
for pid in ALL:
    if pid not in CHECKS and pid not in NOT_APPLICABLE:
        NOT_APPLICABLE[pid] = "check not built yet in this revision (planned, see DESIGN.md section 4); not claimed until its check is registered"

manifest = {
    "version": 1,
    "setup_cmd": "/venv/bin/python run.py --setup",
    "hooks": {
        "guard": "ANYTREE_VERIF",
        "enable": "no source hooks are needed: every observation point is public API (overridable notification methods, .parent/.children, Resolver._match_cache); checks import /repo's working tree directly via sys.path",
        "baseline_off_cmd": BASELINE_OFF,
        "source_commits": [],
        "add_only": True,
    },
    "engines": [
        {
            "name": "vf",
            "path": "run.py",
            "serves_properties": sorted(CHECKS),
            "kind_free_text": "property-based testing: Hypothesis generators plus bounded-exhaustive enumeration as structured generators, explicit reference oracles (vf/refs.py, vf/model.py), 16-way sharding, shrunk replay files",
        },
        {
            "name": "vf-fuzz",
            "path": "vf/fuzz.py",
            "serves_properties": ["C07", "C08"],
            "kind_free_text": "coverage-guided supplement of the thorough tiers: atheris/libFuzzer drives the property's own Hypothesis strategy + oracle through fuzz_one_input with anytree instrumented; skipped (and said so in the evidence) if atheris is not installable",
        },
    ],
    "checks": [CHECKS[p] for p in sorted(CHECKS)],
    "not_applicable": [{"property_id": p, "reason": NOT_APPLICABLE[p]} for p in sorted(NOT_APPLICABLE)],
    "notes": "All checks: /venv/bin/python run.py <id> --tier quick|thorough; VERIF_SEED selects the Hypothesis seed (enumerated parts are seed-independent). Exit 2 + HARNESS-ERROR = harness problem, never a violation. known_findings.json lists recorded defects; replays/regress holds committed regression inputs re-run by every check.",
}
with open(os.path.join(ROOT, "MANIFEST.json"), "w") as fh:
    json.dump(manifest, fh, indent=1)
    fh.write("\n")
print("wrote MANIFEST.json: %d checks, %d not_applicable" % (len(CHECKS), len(NOT_APPLICABLE)))
