#!/venv/bin/python
"""Print a markdown table of the seeded changes under /verif/seeded (from their meta.json files)."""
import glob
import json
import os

ROOT = os.path.dirname(os.path.dirname(os.path.abspath(__file__)))
rows = []
for path in sorted(glob.glob(os.path.join(ROOT, "seeded", "*", "meta.json"))):
    m = json.load(open(path))
    name = os.path.basename(os.path.dirname(path))
    notes = (m.get("needs_to_manifest") or "").strip().splitlines()
    title = next((l.strip("# ").strip() for l in notes if l.strip()), "")
    checks = m.get("checks_quick", {})
    target = checks.get(m["property"], {})
    caught = m.get("caught_by", [])
    rows.append((name, title[:110], "yes" if m["property"] in caught else "NO", ", ".join(c for c in caught if c != m["property"]) or "-", ", ".join(target.get("clauses", [])[:2]) or "-"))
print("| seeded change | what it is | caught by its property's check (quick tier) | also caught by | clause reported |")
print("|---|---|---|---|---|")
for r in rows:
    print("| %s | %s | %s | %s | %s |" % r)
