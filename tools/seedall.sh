#!/bin/bash
# re-validate every stored seeded change against its own property's quick check (stored copies under seeded/<id>/),
# ${1:-3} at a time; prints one line per change and a summary; meta.json files are updated
cd "$(dirname "$0")/.."
par=${1:-3}
ls -d seeded/C??-? | sed 's#seeded/##' | xargs -P "$par" -I{} sh -c 'id={}; p=${id%-*}; v=${id#*-}; ./tools/seedcheck.py $p $v --props $p 2>&1 | head -1' | tee /tmp/seedall.log | cut -c1-12,95-
echo "caught: $(grep -c "caught_by=\['C" /tmp/seedall.log) of $(wc -l < /tmp/seedall.log)"
grep -v "caught_by=\['C" /tmp/seedall.log
