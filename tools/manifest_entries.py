# executed by tools/mkmanifest.py
check(
    "C05",
    "exploration",
    "All ordered tree shapes up to 8 (quick) / 10 (thorough) nodes with every start node are enumerated and Hypothesis adds shapes up to 60 nodes; each of the five iterators is compared element-wise (identity) with an independently written reference order, plus exactly-once and no-mutation clauses. Complete below the size bound, sampled above; no claim beyond the explored cases.",
    "Trusts the reference orders in vf/refs.py (recursion / explicit queue over .children) and that tree depth stays below the interpreter recursion limit.",
    "bounded-exhaustive shape enumeration + Hypothesis random trees vs. reference traversal orders",
    "DESIGN.md section 4 C05",
)
