# executed by tools/mkmanifest.py
check(
    "C05",
    "exploration",
    "All ordered tree shapes up to 8 (quick) / 10 (thorough) nodes with every start node are enumerated and Hypothesis adds shapes up to 60 nodes; each of the five iterators is compared element-wise (identity) with an independently written reference order, plus exactly-once and no-mutation clauses. Complete below the size bound, sampled above; no claim beyond the explored cases. Generated cases carry up to three mutations (move, detach, reverse children, rename); the complete oracle is re-evaluated on the same node objects after each of them (read - mutate - read again), which is what exposes stale caches.",
    "Trusts the reference orders in vf/refs.py (recursion / explicit queue over .children) and that tree depth stays below the interpreter recursion limit.",
    "bounded-exhaustive shape enumeration + Hypothesis random trees vs. reference traversal orders",
    "DESIGN.md section 4 C05",
)
check(
    "C04",
    "exploration",
    "Every node of every ordered tree shape up to 7 (quick) / 9 (thorough) nodes is checked against definitions recomputed from .parent/.children only (identity comparison), commonancestors on all pairs/triples and degenerate argument lists; Hypothesis adds trees up to 40 nodes and mutation histories with all attributes re-checked after every step. Complete below the bound, sampled above.",
    "Trusts the recomputation in vf/props/c04.py; equal-comparing/falsy node classes are the business of C17, not of this check.",
    "bounded-exhaustive shapes + Hypothesis trees and mutation histories vs. definitions recomputed from the links",
    "DESIGN.md section 4 C04",
)
check(
    "C06",
    "exploration",
    "The complete product start node x stop subset x filtered-out subset x maxlevel is enumerated on every shape with <= 5 (quick) / <= 6 (thorough) nodes for all five iterators (both ways of passing empty predicates, keyword and positional), and compared with the reference 'admitted set' restriction of the unrestricted order; Hypothesis adds trees up to 25 nodes. Exhaustive inside the bound, sampled beyond. Generated cases carry up to three mutations (move, detach, reverse children, rename); the complete oracle is re-evaluated on the same node objects after each of them (read - mutate - read again), which is what exposes stale caches.",
    "Trusts the admitted-set reference in vf/refs.py; predicates are pure functions of node identity.",
    "bounded-exhaustive option product + Hypothesis vs. admitted-set reference restriction",
    "DESIGN.md section 4 C06",
)
check(
    "C09",
    "exploration",
    "Rows of RenderTree are compared with a row oracle built from 'has following sibling' flags for every shape <= 6/7 nodes x start x 7 styles x 5 childiters x every maxlevel, and the drawing is decoded back into a shape from the prefixes alone; Hypothesis adds larger trees, random equal-width styles, multi-line/empty/list/tuple/int/missing/callable values for by_attr and str(), and Node/AnyNode/SymlinkNode reprs with generated attributes and separators. Generated cases carry up to three mutations (move, detach, reverse children, rename); the complete oracle is re-evaluated on the same node objects after each of them (read - mutate - read again), which is what exposes stale caches.",
    "Assumes lines are separated by '\\n' only and values carry no trailing newline (not generated); custom styles are decodable (cont != end, vertical != blank).",
    "bounded-exhaustive shapes x options + Hypothesis text values vs. row oracle and decode-back round trip",
    "DESIGN.md section 4 C09",
)
check(
    "C14",
    "exploration",
    "For generated attributed trees (nodes may lack the searched attribute) every (mincount, maxcount) combination around the true match count is executed for findall/findall_by_attr in search and cachedsearch, keyword and positional, plus find/find_by_attr; results are compared by identity with the reference filtered pre-order, CountError is required iff a bound is violated and its message must name both numbers. Generated cases carry up to three mutations (move, detach, reverse children, rename); the complete oracle is re-evaluated on the same node objects after each of them (read - mutate - read again), which is what exposes stale caches.",
    "Trusts the C06 reference; fastcache is not installed in this sandbox so cachedsearch runs its pass-through wrappers (the property's 'same results' clause is checked on them).",
    "Hypothesis attributed trees + systematic small cases vs. reference filtered pre-order and iff count-bound predicate",
    "DESIGN.md section 4 C14",
)
check(
    "C15",
    "exploration",
    "Every ordered pair of nodes of every shape up to 7 (quick) / 9 (thorough) nodes, cross-tree pairs, and sampled pairs on Hypothesis trees up to 60 nodes: the triple is compared with path arithmetic on ancestor chains recomputed from .parent, the link/simple-path clauses are checked directly, walk(end,start) must be the mirror image, WalkError iff roots differ. Generated cases carry up to three mutations (move, detach, reverse children, rename); the complete oracle is re-evaluated on the same node objects after each of them (read - mutate - read again), which is what exposes stale caches.",
    "Trusts the ancestor-chain arithmetic in vf/props/c15.py.",
    "bounded-exhaustive shapes x all ordered pairs + Hypothesis vs. ancestor-chain path arithmetic and mirror relation",
    "DESIGN.md section 4 C15",
)
check(
    "C01",
    "fault_enumeration",
    "Every labelled ordered forest over N <= 3 (quick) / <= 4 (thorough) nodes x build routes x every structural call (incl. invalid arguments) x every position at which any of the eight hooks can raise (once, pairs, persistent single (hook,node), read-only plan) is executed for a NodeMixin class, a slotted LightNodeMixin class a mixed-family universe and two classes whose instances all compare equal, under both ANYTREE_ASSERTIONS settings, plus Hypothesis histories over eleven class mixes (Node, AnyNode, SymlinkNode, user classes, both mixins); after every call the link invariant is evaluated over everything reachable and no internal assertion may fire. Complete below the bound, sampled above.",
    "Hooks only raise, they never mutate the tree; the invariant is read through public .parent/.children; calls run under a lowered recursion limit so unbounded rollback recursion ends quickly; a case that does not terminate within 15 s is reported as a violation (non-termination).",
    "fault enumeration (bounded-exhaustive forests x calls x hook fault positions) + Hypothesis stateful histories vs. structural link invariant",
    "DESIGN.md section 4 C01",
)
check(
    "C02",
    "exploration",
    "Every labelled ordered forest over N <= 4 nodes (thorough: N = 5 with short children lists) x every parent assignment x every children sequence x every deletion, plus constructor calls of Node/AnyNode/SymlinkNode with every parent=/children= argument and Hypothesis histories over ten class choices: post-state compared on the whole universe with a closed-form specification, refusal required iff the closed-form predicate says so and with exactly the prescribed class.",
    "Trusts the closed-form spec in vf/mut.py (written from the statement); families are never mixed; non-node arguments only for NodeMixin classes; non-iterable children belong to C03.",
    "bounded-exhaustive forests x calls + Hypothesis histories vs. closed-form post-state/refusal specification",
    "DESIGN.md section 4 C02",
)
check(
    "C03",
    "fault_enumeration",
    "Every forest over N <= 3 (quick) / <= 4 (thorough) nodes x every call x every position at which a pre-hook can raise (once, pairs covering rollback hooks, persistent single (hook,node), read-only plan) and every invalid argument, plus Hypothesis histories; in-scope failing calls must leave the whole-universe snapshot unchanged. Four known findings (KF-C03-1..4) are recognised only when a step model of the current rollback algorithm predicts exactly the observed exception and post-state; any other deviation is a violation.",
    "Scope: TreeError/LoopError, TypeError for non-iterable children, or only _pre_* hooks raised. The step model (vf/mut.py StepModel) is used solely to classify deviations, never as oracle.",
    "fault enumeration of pre-hook exception positions vs. pre-state == post-state, deviations classified against known findings",
    "DESIGN.md section 4 C03",
)
check(
    "C16",
    "exploration",
    "Logging hooks snapshot the forest at every invocation. For successful calls, refused calls and hook-aborted parent assignments the complete log must equal the closed-form protocol log; for every call (also failed children assignments with rollback) the forest may change only between matching pre/post detach or attach hooks and each hook must observe the documented before/after state; post-hook exceptions of parent assignments must leave the preceding step done. Enumerated over all forests N <= 3/4 x calls x single fault positions, plus Hypothesis histories.",
    "Hook logs of failed children assignments are not prescribed by the statement (only the bracket invariant applies); calls ending in RecursionError (KF-C03-4) are not bracket-checked.",
    "bounded-exhaustive forests x calls x fault positions + Hypothesis histories vs. closed-form hook log and bracket invariant over in-hook snapshots",
    "DESIGN.md section 4 C16",
)
check(
    "C18",
    "exploration",
    "The same generated history (arguments, fault plans, initial forest) is applied in lock-step to a NodeMixin universe and a slotted LightNodeMixin universe: outcome class, forest and hook log are compared after every call, and every navigation attribute, util helper, iterator (with restrictions), search, Walker, Resolver.get/glob and RenderTree result afterwards. Enumerated over all forests N <= 3/4 x calls x single fault positions, plus Hypothesis histories.",
    "Pure differential check (no reference model); only tree-node arguments; histories are cut at a RecursionError outcome.",
    "lock-step differential testing of the two mixins over enumerated single steps and Hypothesis histories",
    "DESIGN.md section 4 C18",
)
check(
    "C07",
    "exploration",
    "Trees up to 12 nodes with adversarial names, six separators, both path attributes and all four ignorecase/relax combinations: for every ordered node pair the absolute path and the relative path spelled from Walker.walk must resolve to the target (identity), and generated component sequences (names, unknown names, '..', '.', '', leading/trailing/double separators) must give exactly the node or exception class (and exc.node) a reference interpreter of the statement gives; relaxed mode must return None exactly there and never raise. All short paths over a 7-symbol alphabet are enumerated on all small shapes (with and without sibling names that differ only in case); the thorough tier adds 16 coverage-guided atheris campaigns on the same strategy and oracle. Generated cases carry up to three mutations (move, detach, reverse children, rename); the complete oracle is re-evaluated on the same node objects after each of them (read - mutate - read again), which is what exposes stale caches.",
    "Trusts vf/resolver_ref.py ref_get; names never contain separator characters, are never '', '.', '..'; special-casing characters are not generated. Found and repaired defect D3 (fix: commit 093226e) is replayed as regression input.",
    "Hypothesis trees/names/paths + exhaustive short paths (+ atheris campaigns in the thorough tier) vs. reference path interpreter and two round trips",
    "DESIGN.md section 4 C07",
)
check(
    "C08",
    "exploration",
    "Every query runs in relaxed and strict mode on the shared class-level pattern cache (queries of a case form a cache history with more than 20 distinct components, ignorecase pairs and explicit clears). Relaxed: never raises, identity set equals a reference evaluator with its own DP wildcard matcher, pre-order/duplicate clauses. Strict: same list or ResolverError only with a genuine dead end; wildcard-free patterns agree with get. All patterns of <= 3 (quick) / <= 4 (thorough) components over a 10-symbol alphabet (incl. the empty component) are enumerated on all shapes <= 4/5 nodes; the thorough tier adds 16 coverage-guided atheris campaigns on the same strategy and oracle. Generated cases carry up to three mutations (move, detach, reverse children, rename); the complete oracle is re-evaluated on the same node objects after each of them (read - mutate - read again), which is what exposes stale caches.",
    "Trusts vf/resolver_ref.py ref_glob/wildmatch; '**' as absolute root component not generated; strict clauses only on sibling-unique names. Defect D4 repaired (fix: 7a838a2); KF-C08-1 recognised only by its dead-end signature with the subsequence requirement.",
    "Hypothesis patterns/cache histories + exhaustive short patterns (+ atheris campaigns in the thorough tier) vs. reference glob evaluator; relaxed/strict/get metamorphic relations",
    "DESIGN.md section 4 C08",
)
check(
    "C10",
    "exploration",
    "Generated trees of AnyNode/Node/a user NodeMixin class with arbitrary attribute dictionaries (non-identifier and underscore keys; None, numbers, text, bytes, tuples, sets, nested containers, opaque objects) and every attriter/childiter/dictcls/maxlevel choice at every level: export equals an independent serialisation (key order, mapping type, 'children' only when non-empty), import_(export(t)) is isomorphic with equal attributes, export(import_(d)) equals d up to empty 'children' lists for generated nested dictionaries, and neither call modifies its argument. The option product is enumerated on all shapes <= 4/6 nodes. Generated cases carry up to three mutations (move, detach, reverse children, rename); the complete oracle is re-evaluated on the same node objects after each of them (read - mutate - read again), which is what exposes stale caches.",
    "Trusts the reference serialiser in vf/props/c10.py; attribute keys avoid 'parent', 'children' and constructor parameter names; immutability judged on public state.",
    "Hypothesis attributed trees and nested dictionaries + enumerated option product vs. reference serialiser and two round trips",
    "DESIGN.md section 4 C10",
)
check(
    "C11",
    "exploration",
    "Generated trees with JSON-representable values (huge ints, finite floats, non-ASCII/control/astral text, nested lists and dicts) under every combination of indent/sort_keys/ensure_ascii/separators/maxlevel, with and without a custom DictExporter (own attriter/childiter/maxlevel) and custom DictImporter/object_pairs_hook: export() must equal json.dumps(reference dict, **options) textually, write() must emit the same text, import_() and read() must rebuild an isomorphic tree with type-strictly equal values. Generated cases carry up to three mutations (move, detach, reverse children, rename); the complete oracle is re-evaluated on the same node objects after each of them (read - mutate - read again), which is what exposes stale caches.",
    "Trusts json.dumps of the standard library and the C10 reference serialiser; NaN/Infinity, tuples and non-string keys are outside the property.",
    "Hypothesis JSON-valued trees x option bundles vs. json.dumps(reference) and import round trip",
    "DESIGN.md section 4 C11",
)
check(
    "C12",
    "exploration",
    "The complete product start x stop subset x filtered-out subset x maxlevel (None, 0..height+2) on every shape <= 5 (quick) / <= 6 (thorough) nodes for DotExporter, UniqueDotExporter and RenderTreeGraph with quote/backslash/newline/non-ASCII names, plus Hypothesis trees with colliding names, custom name/attribute/edge functions, options, indent, graph/name and to_dotfile: header, option lines, node statements in reference pre-order with recoverable escaped identifiers, edge statements as a multiset equal to the declared parent-child pairs, closing brace, identifier stability on re-iteration. Generated cases carry up to three mutations (move, detach, reverse children, rename); the complete oracle is re-evaluated on the same node objects after each of them (read - mutate - read again), which is what exposes stale caches.",
    "Defect D7 repaired (fix: 3fd3770). KF-C12-1 (edge to a directly stopped child, pinned by the repository's reference files) is recognised only by its signature: declared parent, depth in range, stop(c) and filter_(c) true; any other undeclared edge end is a violation.",
    "bounded-exhaustive option product + Hypothesis names/functions vs. parse-back of emitted lines against the declared sub-forest",
    "DESIGN.md section 4 C12",
)
check(
    "C13",
    "exploration",
    "Same product and generators as C12 for MermaidExporter: header, option lines, node lines indent+id+nodefunc in reference pre-order, default label escaping, distinct and stable identifiers, edge lines as a multiset equal to the declared parent-child pairs, to_file fence. Generated cases carry up to three mutations (move, detach, reverse children, rename); the complete oracle is re-evaluated on the same node objects after each of them (read - mutate - read again), which is what exposes stale caches.",
    "Defect D7 repaired (fix: b21f505). Default identifiers are read off the node lines and must match N<digits>.",
    "bounded-exhaustive option product + Hypothesis names/functions vs. expected lines built from the declared sub-forest",
    "DESIGN.md section 4 C13",
)
check(
    "C17",
    "exploration",
    "Node classes are generated: any subset of the 12 comparison/hash/bool/container special methods with adversarial-constant, raising or unhashable behaviour on three bases (Node, a NodeMixin class, a slotted LightNodeMixin class), optionally mixed with plain nodes in one forest. A generated mutation history and afterwards every read-only API (navigation, util, iterators, search, Walker, Resolver get/glob, RenderTree, Dot/UniqueDot/Mermaid/Dict/Json exporters) run on the generated class and on a plain class; label-mapped results and exception classes must be equal and the generated methods' invocation counters must stay 0. Each single method x behaviour x base is covered systematically.",
    "Differential oracle (plain class of the same base); the harness touches nodes only by identity. Defects D6a and D6b repaired (fix: e819994, bb01c9a).",
    "generated adversarial classes x Hypothesis histories, differential vs. plain class + never-invoked counters",
    "DESIGN.md section 4 C17",
)
check(
    "C19",
    "exploration",
    "Every shape <= 5/6 nodes x 5 class schemes (Node, mixed NodeMixin classes, trees with SymlinkNodes whose targets are in the same tree, in a second tree or other links, slotted and dict-carrying LightNodeMixin classes) x every entry node x every applicable pickle protocol and copy.deepcopy, plus Hypothesis trees <= 30 nodes: the copy must be isomorphic (shape, order, classes, attribute values), the result must occupy the entry's position, share no object with the original, satisfy the C01 invariant, keep link targets pointing at the corresponding copied node, and mutations of either side must not show on the other.",
    "Protocols 0/1 only for classes without __slots__; trees stay far below pickle/deepcopy recursion limits.",
    "bounded-exhaustive shapes x class schemes x entry x protocol + Hypothesis vs. isomorphism/position/disjointness/consistency/independence oracle",
    "DESIGN.md section 4 C19",
)
check(
    "C20",
    "exploration",
    "Histories over a growing universe of plain nodes and links (SymlinkNode with constructor keywords, a SymlinkNodeMixin subclass; links to links, same or other tree) with structural calls and attribute writes on links and targets: after every step the whole node x attribute-name table read through getattr is compared with an attribute-store model, every node's navigation attributes with the C04 definitions at its own position, and the whole forest with the closed-form structural model.",
    "Attribute names exclude the node API; after a refused structural call only exception class and link invariant are judged (rollback is C03). Defect D9 repaired (fix: 1363094).",
    "Hypothesis stateful histories + systematic link-chain scripts vs. attribute-store model and structural model",
    "DESIGN.md section 4 C20",
)
