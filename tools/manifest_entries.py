# executed by tools/mkmanifest.py
check(
    "C05",
    "exploration",
    "All ordered tree shapes up to 8 (quick) / 10 (thorough) nodes with every start node are enumerated and Hypothesis adds shapes up to 60 nodes; each of the five iterators is compared element-wise (identity) with an independently written reference order, plus exactly-once and no-mutation clauses. Complete below the size bound, sampled above; no claim beyond the explored cases.",
    "Trusts the reference orders in vf/refs.py (recursion / explicit queue over .children) and that tree depth stays below the interpreter recursion limit.",
    "bounded-exhaustive shape enumeration + Hypothesis random trees vs. reference traversal orders",
    "DESIGN.md section 4 C05",
)
check(
    "C04",
    "exploration",
    "Every node of every ordered tree shape up to 7 (quick) / 9 (thorough) nodes is checked against definitions recomputed from .parent/.children only (identity comparison), commonancestors on all pairs/triples and degenerate argument lists; Hypothesis adds trees up to 40 nodes and mutation histories with all attributes re-checked after every step. Complete below the bound, sampled above.",
    "Trusts the recomputation in vf/props/c04.py; equal-comparing/falsy node classes are the business of C17, not of this check.",
    "bounded-exhaustive shapes + Hypothesis trees and mutation histories vs. definitions recomputed from the links",
    "DESIGN.md section 4 C04",
)
check(
    "C06",
    "exploration",
    "The complete product start node x stop subset x filtered-out subset x maxlevel is enumerated on every shape with <= 5 (quick) / <= 6 (thorough) nodes for all five iterators (both ways of passing empty predicates, keyword and positional), and compared with the reference 'admitted set' restriction of the unrestricted order; Hypothesis adds trees up to 25 nodes. Exhaustive inside the bound, sampled beyond.",
    "Trusts the admitted-set reference in vf/refs.py; predicates are pure functions of node identity.",
    "bounded-exhaustive option product + Hypothesis vs. admitted-set reference restriction",
    "DESIGN.md section 4 C06",
)
check(
    "C09",
    "exploration",
    "Rows of RenderTree are compared with a row oracle built from 'has following sibling' flags for every shape <= 6/7 nodes x start x 7 styles x 5 childiters x every maxlevel, and the drawing is decoded back into a shape from the prefixes alone; Hypothesis adds larger trees, random equal-width styles, multi-line/empty/list/tuple/int/missing/callable values for by_attr and str(), and Node/AnyNode/SymlinkNode reprs with generated attributes and separators.",
    "Assumes lines are separated by '\\n' only and values carry no trailing newline (not generated); custom styles are decodable (cont != end, vertical != blank).",
    "bounded-exhaustive shapes x options + Hypothesis text values vs. row oracle and decode-back round trip",
    "DESIGN.md section 4 C09",
)
check(
    "C14",
    "exploration",
    "For generated attributed trees (nodes may lack the searched attribute) every (mincount, maxcount) combination around the true match count is executed for findall/findall_by_attr in search and cachedsearch, keyword and positional, plus find/find_by_attr; results are compared by identity with the reference filtered pre-order, CountError is required iff a bound is violated and its message must name both numbers.",
    "Trusts the C06 reference; fastcache is not installed in this sandbox so cachedsearch runs its pass-through wrappers (the property's 'same results' clause is checked on them).",
    "Hypothesis attributed trees + systematic small cases vs. reference filtered pre-order and iff count-bound predicate",
    "DESIGN.md section 4 C14",
)
check(
    "C15",
    "exploration",
    "Every ordered pair of nodes of every shape up to 7 (quick) / 9 (thorough) nodes, cross-tree pairs, and sampled pairs on Hypothesis trees up to 60 nodes: the triple is compared with path arithmetic on ancestor chains recomputed from .parent, the link/simple-path clauses are checked directly, walk(end,start) must be the mirror image, WalkError iff roots differ.",
    "Trusts the ancestor-chain arithmetic in vf/props/c15.py.",
    "bounded-exhaustive shapes x all ordered pairs + Hypothesis vs. ancestor-chain path arithmetic and mirror relation",
    "DESIGN.md section 4 C15",
)
