# executed by tools/mkmanifest.py: one check(...) per claimed property (id, level, what the level means here, trusted base, technique, design ref)
COMMON_NOTE = (
    " Shared trusted base: Hypothesis 6.168 and CPython; the harness maps nodes to labels by id() only; every generated-case shard alternates "
    "ANYTREE_ASSERTIONS=0/1; a case that does not terminate within 15 s is reported as a violation (clause non-termination); a run stops as soon as one shard has reported a violation; "
    "tree-based checks also run on node classes with their own __eq__/__hash__/__bool__/__len__ and on classes derived from list/tuple."
)

check(
    "C01",
    "fault_enumeration",
    "Every labelled ordered forest over N <= 3 (quick) / <= 4 (thorough) nodes x build routes x every structural call (incl. truthy and falsy non-node arguments, non-iterables) x every position at which any of the eight hooks can raise (once, pairs, persistent single (hook,node), read-only plan), for a NodeMixin class, a slotted LightNodeMixin class, a mixed-family universe, two equal-comparing classes and a universe of nodes and SymlinkNodes pointing at each other, under both ANYTREE_ASSERTIONS settings; Hypothesis histories over 13 class mixes; read-free (blind) histories whose invariant is evaluated once at the end; every single fault position also with an interrupt-like BaseException; stack exhaustion as a fault (12 calls x 3 forests x 3..45/90 frames of stack left x 7 classes); legal children assignments of 300/1000 nodes; attach hooks that re-home the receiving node itself below another node. After every call the link invariant is evaluated over everything reachable and no internal assertion may fire. Complete below the bound, sampled above. Also: read-free histories over universes mixing NodeMixin and LightNodeMixin objects; hooks that edit the caller's own children list, return False or raise StopIteration-style exceptions.",
    "Hooks raise (plain, AssertionError-, TreeError- and KeyError-style vetoes, interrupt-like BaseExceptions), edit the tree or read the whole forest in this check; the invariant is read through public .parent/.children; calls run under a lowered recursion limit so the unbounded rollback recursion of KF-C03-4 ends quickly." + COMMON_NOTE,
    "fault enumeration (bounded-exhaustive forests x calls x hook fault positions) + Hypothesis stateful and read-free histories vs. structural link invariant",
    "DESIGN.md sections 4 C01, 9.1, 9.5",
)
check(
    "C02",
    "exploration",
    "Every labelled ordered forest over N <= 4 nodes (thorough: N = 5 with short children lists) x every parent assignment x every children sequence (lists, tuples, generators) x every deletion; constructors of Node/AnyNode/SymlinkNode with every parent= (incl. falsy non-nodes) and children= argument; Hypothesis histories over 14 class choices; read-free (blind) call sequences of length 2-4 enumerated from the all-roots forest; histories built in a helper scope that hands back one or two nodes only, after which parent chain and whole tree are read from the kept node (links must not depend on anybody else holding the nodes); structural calls, constructors and loop refusals at the bottom of chains deeper than the interpreter's recursion limit; a user class whose constructor calls the rest of its cooperative inheritance chain after setting parent/children; legal calls on node classes whose repr()/str() raise; every parent assignment on every forest N <= 4 with a hook of the moving node that evicts a sibling at each hook position (closed-form expectation); children assigned from generators whose evaluation attaches nodes to the same node. The post-state of the whole universe is compared with a closed-form specification; a call must be refused iff the closed-form predicate says so, with exactly the prescribed class. Also: look-alike non-nodes (a node class passed instead of an instance, a stub with parent/children/iter_path_reverse) must be refused with TreeError like any non-node.",
    "Trusts the closed-form spec in vf/mut.py (written from the statement); NodeMixin and LightNodeMixin universes are never mixed; non-node arguments only for NodeMixin classes; non-iterable children belong to C03." + COMMON_NOTE,
    "bounded-exhaustive forests x calls + Hypothesis histories (with and without intermediate reads) vs. closed-form post-state/refusal specification",
    "DESIGN.md sections 4 C02, 9.1, 9.5",
)
check(
    "C03",
    "fault_enumeration",
    "Every forest over N <= 3 (quick) / <= 4 (thorough) nodes x every call x every position at which a pre-hook can raise (once, pairs covering the hooks re-run by the rollback, persistent single (hook,node), read-only plan) and every invalid argument (non-node parents for both mixins, non-node children for NodeMixin, non-iterables), plus Hypothesis histories, refusals at the bottom of chains deeper than the recursion limit, a forest locked through an override of the public parent property (every call on every forest N <= 3/4), vetoes of every exception style, vetoes of the attach phase after _pre_detach_children re-filed a child (the rollback restores it too), and vetoed legal calls on node classes whose repr()/str() raise: an in-scope failing call must leave the whole-universe snapshot unchanged. Four known findings (KF-C03-1..4) are recognised only when a step model of the current rollback algorithm predicts exactly the observed exception and post-state; any other deviation is a violation. Also: look-alike non-nodes and StopIteration-style vetoes.",
    "Scope: TreeError/LoopError, TypeError for non-iterable children, any exception for a non-node parent, or only _pre_* hooks raised. The step model (vf/mut.py StepModel) only classifies deviations, it is never the oracle." + COMMON_NOTE,
    "fault enumeration of pre-hook exception positions vs. pre-state == post-state, deviations classified against known findings",
    "DESIGN.md sections 4 C03, 2.6, 9.1",
)
check(
    "C04",
    "exploration",
    "Every node of every ordered tree shape up to 7 (quick) / 10 (thorough) nodes, for eleven node classes (incl. nodes whose data attributes are named like the read-only properties - size, depth, path ... -, SymlinkNodes whose targets sit in another or in the same tree; link, target, target's root and the link again are asked in turn), is checked against definitions recomputed from .parent/.children only (identity comparison); commonancestors on all pairs/triples and degenerate argument lists; Hypothesis trees up to 40 nodes and mutation histories with all attributes re-checked after every step; the upward-looking attributes also on chains of 700-3000 nodes, everything also on nodes with 300-2000 children (before and after the last child leaves); every parent assignment on every forest N <= 4 with an evicting hook at each hook position; histories with sparse reads (one deep node asked, a node above it moved, asked again).",
    "Trusts the recomputation in vf/props/c04.py; downward-recursive attributes are not exercised beyond 60 nodes (interpreter recursion limit)." + COMMON_NOTE,
    "bounded-exhaustive shapes + Hypothesis trees and mutation histories vs. definitions recomputed from the links",
    "DESIGN.md sections 4 C04, 9.1",
)
check(
    "C05",
    "exploration",
    "Every start node of every shape up to 8 (quick) / 11 (thorough) nodes for six node classes, Hypothesis shapes up to 60 nodes re-checked after up to three mutations, trunks of 270-400 nodes with a crown on top, and (breadth-first iterators only) two parallel chains deeper than the interpreter's recursion limit: each of the five iterators is compared element-wise (identity) with an independently written reference order, plus exactly-once, group/tuple, no-mutation clauses; abandoned and interleaved iterations must not influence later ones, and an iterator object used in two portions (loop left early, next(), islice, zip, sub-iterator from iter(), then resumed) hands out the full sequence exactly once and stays exhausted; two objects of each iterator class advanced alternately and nested; a small differential in child interpreters started with -O/-OO; a trunk of 1.6 x the default recursion limit after sys.setrecursionlimit() was raised; one node class inherits unrelated class attributes named is_leaf/depth/height/... from a base listed before NodeMixin (traversal is defined by .children alone).",
    "Trusts the reference orders in vf/refs.py (recursion / explicit queue over .children)." + COMMON_NOTE,
    "bounded-exhaustive shape enumeration + Hypothesis random trees vs. reference traversal orders",
    "DESIGN.md sections 4 C05, 9.1, 9.2",
)
check(
    "C06",
    "exploration",
    "The complete product start node x stop subset x filtered-out subset x maxlevel is enumerated on every shape with <= 5 (quick) / <= 6 (thorough; 7-node shapes with the root as start) nodes for all five iterators, keyword and positional argument forms, both ways of passing empty predicates, predicates returning bools, 1/0, 'x'/'' or [0]/None, after an abandoned iteration and after iterations that ended in an exception raised by a predicate; Hypothesis adds trees up to 25 nodes with mutation phases, iterator objects consumed in two portions, two parallel chains deeper than the recursion limit with maxlevel None/257/258/300/.../2**63/10**30/True, stop nodes and a filter (breadth-first iterators), and iterator objects created before a change of the tree or of the predicates' answers and consumed afterwards. Results are compared with the reference 'admitted set' restriction of the unrestricted order. Exhaustive inside the bound, sampled beyond.",
    "Trusts the admitted-set reference in vf/refs.py; predicates are pure functions of node identity." + COMMON_NOTE,
    "bounded-exhaustive option product + Hypothesis vs. admitted-set reference restriction",
    "DESIGN.md sections 4 C06, 9.1",
)
check(
    "C07",
    "exploration",
    "Trees up to 12 nodes with adversarial names (regex/wildcard metacharacters, the other separators, case variants of sibling names), six separators, two path attributes, all ignorecase/relax combinations, resolver objects re-used for the whole process (built with keyword arguments, positionally, with only the non-default options, and by a subclass that sets the option attributes after the base constructor): for every ordered node pair the absolute path and the relative path spelled from Walker.walk must resolve to the target; generated component sequences must give exactly the node or exception class (and exc.node) a reference interpreter of the statement gives (ChildResolverError.child must be the failing component); relaxed mode returns None exactly there and never raises; in half of the generated cases each path text is first used as a glob() pattern (class-level pattern cache). Names may be ints, tuples or str subclasses with their own __str__; node classes whose repr() raises (relaxed misses must still return None); the same text used first on a tree with another separator; trees that mix node classes with different separators; paths with more components than the recursion limit (zig-zag on two nodes, chains that deep). All short paths over a 7-symbol alphabet are enumerated on small shapes (with and without duplicate names); cases are re-checked after moves, detaches and renames; the thorough tier adds 16 atheris campaigns on the same strategy and oracle. Separators include multi-character ones with cased letters ('->', 'x', ' of ') with names ending in one of the separator's characters (generated so that joined paths split back uniquely).",
    "Trusts vf/resolver_ref.py ref_get; names never contain separator characters and are never '', '.', '..'; special-casing characters are not generated. Repaired defect D3 (fix: 093226e) is replayed as regression input." + COMMON_NOTE,
    "Hypothesis trees/names/paths + exhaustive short paths (+ atheris campaigns in the thorough tier) vs. reference path interpreter and two round trips",
    "DESIGN.md sections 4 C07, 9.1",
)
check(
    "C08",
    "exploration",
    "Every query runs in relaxed and strict mode on the shared class-level pattern cache (the queries of a case form a cache history with more than 20 distinct components, ignorecase pairs, re-use after eviction, explicit clears; in a quarter of the generated cases every query is preceded by get() of the same text). Relaxed: never raises, identity set equals a reference evaluator with its own DP wildcard matcher, pre-order/duplicate clauses. Strict: same list or ResolverError only with a genuine dead end; wildcard-free patterns agree with get. Names with special-casing characters (sharp s, ligatures, dotless i, Kelvin sign) are judged by folding-independent clauses only: wildcard-only patterns by length, identical spelling, case-sensitive literals, independence of the query history; a path attribute that re-enters the running resolver object; trees that mix separators; every group of names that some case mapping identifies; the same text used first on a tree with another separator. All patterns of <= 3 (quick) / <= 4 (thorough) components over an 11-symbol alphabet (incl. the empty component and a literal with '[') are enumerated on all shapes <= 4/5 nodes with three naming schemes; the thorough tier adds 16 atheris campaigns. Separators include '->', 'x' and ' of '.",
    "Trusts vf/resolver_ref.py ref_glob/wildmatch; '**' as absolute root component not generated; strict clauses only on sibling-unique names. Defect D4 repaired (fix: 7a838a2); KF-C08-1 recognised only by its dead-end signature with the subsequence requirement." + COMMON_NOTE,
    "Hypothesis patterns/cache histories + exhaustive short patterns (+ atheris campaigns in the thorough tier) vs. reference glob evaluator; relaxed/strict/get metamorphic relations",
    "DESIGN.md sections 4 C08, 9.1",
)
check(
    "C09",
    "exploration",
    "Rows of RenderTree are compared with a row oracle built from 'has following sibling' flags for every shape <= 6/8 nodes x start x 7 styles x 5 childiters x every maxlevel, keyword and positional forms, and the drawing is decoded back into a shape from the prefixes alone; abandoned/interleaved renderings, a RenderTree object kept across mutations, option changes and changes of its style object's glyphs; nodes with 300-1500 children; overlapping iterations of one RenderTree object; Hypothesis adds larger trees, random equal-width styles, multi-line/empty/list/tuple/range/deque/int/missing/callable values for by_attr and str() (on a class whose __str__ differs from its __repr__), and Node/AnyNode/SymlinkNode reprs with generated attributes (prefix-related names), names (also tuples) and separators, re-checked after renames and moves. maxlevel values that are not whole numbers are judged by the literal statement (depth below max(maxlevel, 1)).",
    "Assumes lines are separated by '\\n' only and values carry no trailing newline (not generated); custom styles are decodable (cont != end, vertical != blank)." + COMMON_NOTE,
    "bounded-exhaustive shapes x options + Hypothesis text values vs. row oracle and decode-back round trip",
    "DESIGN.md sections 4 C09, 9.1",
)
check(
    "C10",
    "exploration",
    "Generated trees of AnyNode/Node/a user NodeMixin class/container-like and equal-comparing AnyNode subclasses with arbitrary attribute dictionaries (non-identifier, underscore and property-named keys; None, numbers, text, bytes, tuples, sets, nested containers, opaque objects) and every attriter/childiter (lists, generators, one-shot iterators, filters that remove all children)/dictcls/maxlevel choice: export equals an independent serialisation (key order, mapping type, 'children' only when non-empty), import_(export(t)) is isomorphic, export(import_(d)) equals d up to empty 'children' lists for generated nested dictionaries with the 'children' key at any position, and neither call modifies its argument (key order included; also for auto-vivifying dictionaries, where a mere look-up of an absent key inserts it); data keys that look like the mixins' private names but were assigned by the user are exported like any other; positional constructor arguments; a memoising childiter that returns the same list object again; an attriter that calls export() of the same exporter on another tree does not disturb the running export; a long-lived exporter whose earlier exports were aborted by an exception from attriter/childiter exports the same data as before. The option product is enumerated on all shapes <= 4/6 nodes. maxlevel values that are not whole numbers are judged by the literal statement (depth >= maxlevel is cut).",
    "Trusts the reference serialiser in vf/props/c10.py; attribute keys avoid 'parent', 'children' and constructor parameter names; bookkeeping = the mixins' name-mangled private attributes; immutability judged on public state." + COMMON_NOTE,
    "Hypothesis attributed trees and nested dictionaries + enumerated option product vs. reference serialiser and two round trips",
    "DESIGN.md sections 4 C10, 9.1",
)
check(
    "C11",
    "exploration",
    "Generated trees with JSON-representable values (huge ints, finite floats, non-ASCII/control/astral text, nested lists and dicts incl. 'children'/'parent' keys) under every combination of indent/sort_keys/ensure_ascii/separators (also spelled out with their default values) and maxlevel, with and without a custom DictExporter and custom DictImporter/object_pairs_hook: export() must equal json.dumps(reference dict, **options) textually, write() must emit the same text, import_() and read() must rebuild an isomorphic tree with type-strictly equal values - also when the same text is imported again after the first result was edited in place; cls= encoder classes (export() vs json.dumps, write() vs json.dump); documents read from a handle that is not at offset 0; documents of several MiB (one huge string / 4000 nodes) through export(), write() into a bounded sink, import_() and read(). Non-integral maxlevels as in C10.",
    "Trusts json.dumps of the standard library and the C10 reference serialiser; NaN/Infinity, tuples and non-string keys are outside the property." + COMMON_NOTE,
    "Hypothesis JSON-valued trees x option bundles vs. json.dumps(reference) and import round trip",
    "DESIGN.md sections 4 C11, 9.1",
)
check(
    "C12",
    "exploration",
    "The complete product start x stop subset x filtered-out subset x maxlevel (None, 0..height+2) on every shape <= 5 (quick) / <= 6 (thorough) nodes for DotExporter, UniqueDotExporter and RenderTreeGraph with quote/backslash/newline/non-ASCII names (incl. backslash followed by n/l/r), plus Hypothesis trees with colliding names, custom name/attribute/edge functions, options, indent, graph/name, to_dotfile and mutation phases: header, option lines, node statements in reference pre-order with recoverable escaped identifiers, edge statements as a multiset equal to the declared parent-child pairs, closing brace. The same exporter object is iterated again interleaved, after iterations aborted by an exception from any user callback, after the tree has grown and after the admitted set has shrunk; identifiers must stay stable; to_dotfile of the configured exporter is compared byte-wise, also in a child interpreter under LC_ALL=C with UTF-8 mode off; options passed positionally in the order of the released signatures; a long-lived UniqueDotExporter while exported nodes are garbage-collected and replaced; two really overlapping iterations of one exporter; exports of more than 8192 lines; filter_/stop results are judged by truth value. For a maxlevel that is not a whole number and for predicate objects that are falsy no reading is prescribed: node and edge statements must be right for one and the same reading (floor or ceiling; predicate used or ignored).",
    "Defect D7 repaired (fix: 3fd3770). KF-C12-1 (edge to a directly stopped child, pinned by the repository's reference files) is recognised only by its signature: declared parent, depth in range, stop(c) and filter_(c) true; any other undeclared edge end is a violation." + COMMON_NOTE,
    "bounded-exhaustive option product + Hypothesis names/functions vs. parse-back of emitted lines against the declared sub-forest",
    "DESIGN.md sections 4 C12, 9.1",
)
check(
    "C13",
    "exploration",
    "Same product, generators and re-iteration phases as C12 for MermaidExporter: header, option lines, node lines indent+id+nodefunc in reference pre-order, default label escaping, distinct and stable identifiers (names may be str subclasses with their own __str__, numbers that are equal but print differently, None, or text with lone surrogates; custom functions may return the empty string for some nodes/edges; iterations aborted by an exception from any user callback must leave nothing behind on the exporter; filter_/stop results are judged by truth value), edge lines as a multiset equal to the declared parent-child pairs, to_file fence (also written in a child interpreter under LC_ALL=C with UTF-8 mode off); options passed positionally in the order of the released signature. For a maxlevel that is not a whole number and for predicate objects that are falsy no reading is prescribed: node and edge lines must be right for one and the same reading.",
    "Defect D7 repaired (fix: b21f505). Default identifiers are read off the node lines and must be plain identifier tokens." + COMMON_NOTE,
    "bounded-exhaustive option product + Hypothesis names/functions vs. expected lines built from the declared sub-forest",
    "DESIGN.md sections 4 C13, 9.1",
)
check(
    "C14",
    "exploration",
    "For generated attributed trees (nodes may lack the searched attribute; dotted attribute names; class-level defaults and read-only properties as search keys; None, list and tuple values, strings containing '%', a wildcard value that equals everything, and one shared NaN object, records whose __eq__ raises AttributeError for foreign operands; filter_/stop closures that depend on each other's side effects, compared with PreOrderIter run on fresh copies; callbacks that fail with TypeError on their second call only (same outcome in search and cachedsearch)) every (mincount, maxcount) combination around the true match count is executed for findall/findall_by_attr in search and cachedsearch, SymlinkNodes pointing at such nodes, keyword and positional, plus find/find_by_attr; results are compared by identity with the reference filtered pre-order, CountError is required iff a bound is violated and its message must name both numbers; everything is repeated after structure and attribute mutations. A callback raising StopIteration must give the same outcome in search, cachedsearch and PreOrderIter.",
    "Trusts the C06 reference; 'the attribute exists' is judged with getattr; fastcache is not installed in this sandbox so cachedsearch runs its pass-through wrappers." + COMMON_NOTE,
    "Hypothesis attributed trees + systematic small cases vs. reference filtered pre-order and iff count-bound predicate",
    "DESIGN.md sections 4 C14, 9.1",
)
check(
    "C15",
    "exploration",
    "Every ordered pair of nodes of every shape up to 7 (quick) / 10 (thorough) nodes (eleven node classes, incl. tuple-valued names), each shape re-checked after three mutations, cross-tree pairs, sampled pairs on Hypothesis trees up to 60 nodes, and chains of 700-3000 nodes: the triple is compared with path arithmetic on ancestor chains recomputed from .parent, the link/simple-path clauses are checked directly, walk(end,start) must be the mirror image, keyword calls walk(start=, end=) must give the same, two long branches forking at the root, a small differential under python -O/-OO, WalkError iff roots differ; one node class has a repr() that raises (a walk inside one tree never needs the text of a node). One Walker object is used for the whole process. The reference walks a link model kept by the harness (never the library's .parent/.path); classes storing attributes outside the instance dict, classes whose str()/repr() raise.",
    "Trusts the ancestor-chain arithmetic in vf/props/c15.py." + COMMON_NOTE,
    "bounded-exhaustive shapes x all ordered pairs + Hypothesis vs. ancestor-chain path arithmetic and mirror relation",
    "DESIGN.md sections 4 C15, 9.1",
)
check(
    "C16",
    "exploration",
    "Logging hooks snapshot the forest at every invocation. For successful calls, refused calls and hook-aborted parent assignments the complete log must equal the closed-form protocol log; for every call (also failed children assignments with rollback) the forest may change only between matching pre/post detach or attach hooks and each of the eight hooks must observe the documented before/after state; post-hook exceptions of parent assignments - also of the per-child detach inside a children assignment or deletion - must leave the preceding step done; del n.children detaches nodes from n only, whatever the hooks did meanwhile. Interrupt-like BaseExceptions from any hook end the call at once (no further hook, no further change). Classes that received their hooks after they were already in use (assigned to the class, or one callable per instance) count like any other. Enumerated over all forests N <= 3/4 x calls x single fault positions, interrupt positions and tree-editing ('evict') hooks, Hypothesis histories, and read-free (blind) call sequences whose per-call logs are compared with the closed-form log. Hooks returning False are not vetoes; an exception raised by a hook reaches the caller unreplaced (also StopIteration); hooks that edit the caller's own list (plan editlist) change nothing about the assignment.",
    "Hook logs of failed children assignments are not prescribed by the statement (only the bracket invariant applies); calls ending in RecursionError (KF-C03-4) are not bracket-checked; calls with a tree-editing hook are judged by in-hook observations and link consistency only." + COMMON_NOTE,
    "bounded-exhaustive forests x calls x fault positions + Hypothesis and read-free histories vs. closed-form hook log and bracket invariant over in-hook snapshots",
    "DESIGN.md sections 4 C16, 9.1, 9.5",
)
check(
    "C17",
    "exploration",
    "Node classes are generated: any subset of the 12 comparison/hash/bool/container special methods with adversarial-constant, raising or unhashable behaviour on five bases (Node, a NodeMixin class, a slotted LightNodeMixin class, a Node that is also a list, a two-field tuple record), optionally registered as virtual subclasses of the collections.abc container classes and optionally mixed with plain nodes in one forest. A generated mutation history (incl. constructor calls with such nodes as parent=) and afterwards every read-only API (navigation, util incl. single-argument commonancestors, iterators, search and cachedsearch, Walker, Resolver get/glob, RenderTree, Dot/UniqueDot/Mermaid/Dict/Json exporters) run on the generated class and on a plain class; label-mapped results and exception classes must be equal and the generated methods' invocation counters must stay 0.",
    "Differential oracle (plain class of the same ordinary base); the harness touches nodes only by identity. Defects D6a and D6b repaired (fix: e819994, bb01c9a)." + COMMON_NOTE,
    "generated adversarial classes x Hypothesis histories, differential vs. plain class + never-invoked counters",
    "DESIGN.md sections 4 C17, 9.1",
)
check(
    "C18",
    "exploration",
    "The same generated history (arguments, fault plans incl. tree-editing hooks - per-node hooks that detach a sibling, *_children hooks that re-file a child under another node -, initial forest) is applied in lock-step to a NodeMixin universe and a slotted LightNodeMixin universe (ordinary classes, equal-comparing classes and classes overriding the public children property with a reversed view; fault plans also with interrupt-like BaseExceptions; chains deeper than the recursion limit for the upward-looking attributes): outcome class, forest and hook log are compared after every call, the navigation attributes and util helpers of every node before the first and after every call (every third generated history stays read-free until its end, others ask only a few nodes between two calls), and every navigation attribute, util helper, iterator (with restrictions), search, Walker, Resolver.get/glob and RenderTree result afterwards (enumerated single calls ask the full query set in every fourth case, the navigation attributes and helpers always; iter_path_reverse() is also consumed step by step while the node just handed out is moved). Enumerated over all forests N <= 3/4 x calls x single fault positions, plus Hypothesis histories.",
    "Pure differential check (no reference model); only tree-node arguments; histories are cut at a RecursionError outcome." + COMMON_NOTE,
    "lock-step differential testing of the two mixins over enumerated single steps and Hypothesis histories",
    "DESIGN.md sections 4 C18, 9.1",
)
check(
    "C19",
    "exploration",
    "Every shape <= 5/6 nodes x 10 class schemes (incl. links whose targets are LightNodeMixin nodes of another tree, and a link class with a class-level target whose target class has __getstate__/__setstate__) (Node, mixed NodeMixin classes, a NodeMixin class with inherited __slots__ besides its __dict__, user SymlinkNodeMixin classes keeping target in the dictionary, a slot or behind a property, trees with SymlinkNodes whose targets are in the same tree, in a second tree or other links, falsy/equal-comparing/container-like classes, slotted (list and plain-string __slots__) and dict-carrying LightNodeMixin classes) x every entry node x every applicable pickle protocol and copy.deepcopy, plus Hypothesis trees <= 30 nodes, in part rearranged by moves before they are copied (inner nodes that lost all children again): the copy must be isomorphic (shape, order, classes, attribute values), the result must occupy the entry's position, share no object with the original, satisfy the C01 invariant (also after a fresh node was attached below each childless node of the copy in turn), keep link targets pointing at the corresponding copied node, mutations of either side must not show on the other; user data named _parent/_children and a private slot on a class whose name starts with an underscore survive; and an original node moved below the copy of its former parent becomes that copy's last child. Three-level class hierarchies adding one slot per level are created freshly per case and copied in every order of first use; attribute values only copy can handle (closures, instances of local classes, factory-made node classes) with deepcopy.",
    "Protocols 0/1 only for classes without __slots__; trees stay far below pickle/deepcopy recursion limits." + COMMON_NOTE,
    "bounded-exhaustive shapes x class schemes x entry x protocol + Hypothesis vs. isomorphism/position/disjointness/consistency/independence oracle",
    "DESIGN.md sections 4 C19, 9.1",
)
check(
    "C20",
    "exploration",
    "Histories over a growing universe of plain nodes (Node, AnyNode, a Node subclass with a property-backed attribute) and links (SymlinkNode with constructor keywords, SymlinkNodeMixin subclasses that keep `target` in the instance dictionary, in a slot, behind a read-only property or as a class-level attribute; links to links, same or other tree) with structural calls and attribute writes (values incl. None/False/0; names near 'parent'/'children'/'target' and dunder-style names) on links and targets, and assignments to names that exist on the link's class - API names, class-level defaults, inherited settable properties - (judged on the write side); every link answers, for every name it does not define itself, exactly what its direct target answers (one hop at a time): after every step the whole node x attribute-name table read through getattr is compared with an attribute-store model, every node's navigation attributes with the C04 definitions at its own position, and the whole forest with the closed-form structural model. Computed attributes of the target are evaluated exactly once per read of the link (counting property, recording __getattr__).",
    "Attribute names exclude the node API and names Python itself looks up on instances; after a refused structural call only exception class and link invariant are judged (rollback is C03). Defect D9 repaired (fix: 1363094)." + COMMON_NOTE,
    "Hypothesis stateful histories + systematic link-chain scripts vs. attribute-store model and structural model",
    "DESIGN.md sections 4 C20, 9.1",
)
